#!/bin/bash
# Confirm a seeded change produced by a sub-agent: usage confirm_mutant.sh <Cxx> <mN>
# Uses the agent's scratch worktree /tmp/mut/<Cxx> moved to /repo's current HEAD.
id=$1; m=$2; wt=/tmp/mut/$id; d=$wt/MUTANTS/$m
head=$(git -C /repo rev-parse HEAD)
git -C $wt checkout -q -- . && git -C $wt checkout -q --detach $head || { echo "cannot move worktree"; exit 2; }
cd /tmp
PYTHONDONTWRITEBYTECODE=1 PYTHONPATH=$wt /venv/bin/python $d/demo.py >/dev/null 2>&1; rc0=$?
git -C $wt apply $d/patch.diff || { echo "$id/$m: PATCH DOES NOT APPLY on $head"; exit 3; }
suite=$(cd $wt && PYTHONDONTWRITEBYTECODE=1 /venv/bin/python -m pytest -q -p no:cacheprovider --timeout=900 -n 8 2>&1 | tail -1)
PYTHONDONTWRITEBYTECODE=1 PYTHONPATH=$wt /venv/bin/python $d/demo.py >/dev/null 2>&1; rc1=$?
git -C $wt checkout -q -- .
echo "$id/$m: demo_unchanged=$rc0 demo_changed=$rc1 suite='$suite'"
[[ $rc0 == 0 && $rc1 != 0 && "$suite" == *"187 passed"* ]] && echo "$id/$m: CONFIRMED" || echo "$id/$m: NOT CONFIRMED"

#!/bin/bash
# Run every registered check once: tools/allchecks.sh <quick|thorough> [seed] ; prints one line per check, exit != 0 if any check did not exit 0.
tier=${1:-quick}; seed=${2:-0}; bad=0
cd "$(dirname "$0")/.."
for c in $(python3 -c "import json;print(' '.join(x['property_id'] for x in json.load(open('MANIFEST.json'))['checks']))"); do
  t0=$(date +%s)
  out=$(VERIF_SEED=$seed ./run check $c --tier $tier 2>&1); rc=$?
  echo "$c tier=$tier seed=$seed exit=$rc $(( $(date +%s) - t0 ))s $(echo "$out" | tail -1 | cut -c1-160)"
  [ $rc -ne 0 ] && { bad=1; echo "$out" | grep -E "VIOLATION|HARNESS|->" | head -5; }
done
exit $bad

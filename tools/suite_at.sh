#!/bin/bash
# Run the repository's unedited test suite against a commit (default HEAD) of /repo in a scratch worktree.
# usage: tools/suite_at.sh [commit] ; prints the pytest summary line; removes the worktree afterwards.
set -u
c="${1:-HEAD}"
sha=$(git -C /repo rev-parse --short "$c")
wt=/tmp/wt-suite-$sha-$$
git -C /repo worktree add --detach -q "$wt" "$c" || exit 2
cd "$wt"
PYTHONDONTWRITEBYTECODE=1 /venv/bin/python -m pytest -q -p no:cacheprovider --timeout=900 -n 8 2>&1 | tail -5
rc=${PIPESTATUS[0]}
cd /
git -C /repo worktree remove --force "$wt"
echo "suite at $sha: rc=$rc"
exit $rc

#!/usr/bin/env python3
"""Detection matrix: run checks against every seeded change in /verif/seeded.

Each seeded change is applied to its own scratch worktree of /repo's HEAD (under /tmp/mm, removed
afterwards); the checks run against that copy through DV_REPO, with evidence and replays redirected
(DV_OUT) so that the registered evidence is untouched.  /repo itself is never modified.

usage: tools/matrix.py [--tier quick] [--only C09-m1,C10-m2] [--checks own|all|C03,C08] [--jobs 4]
Writes seeded/MATRIX.json and seeded/MATRIX.md (merging with previous results unless --fresh).
"""
import argparse
import concurrent.futures as cf
import json
import os
import re
import shutil
import subprocess
import sys
import time

HERE = os.path.dirname(os.path.dirname(os.path.abspath(__file__)))
SEEDED = os.path.join(HERE, 'seeded')
MM = '/tmp/mm'


def sh(cmd, **kw):
    return subprocess.run(cmd, shell=True, capture_output=True, text=True, **kw)


def claimed():
    man = json.load(open(os.path.join(HERE, 'MANIFEST.json')))
    return [c['property_id'] for c in man['checks']]


def run_one(mid, checks, tier, ncpu, confirm=False):
    d = os.path.join(SEEDED, mid)
    # demo.py asserts that darr is imported from a path starting with the agent's worktree name
    wt = os.path.join(MM, mid)
    try:
        mm = re.search(r'/tmp/mut/[A-Za-z0-9_]+', open(os.path.join(d, 'demo.py')).read())
        if mm:
            wt = mm.group(0) + '__' + mid
    except OSError:
        pass
    os.makedirs(os.path.dirname(wt), exist_ok=True)
    out = os.path.join(MM, mid + '.out')
    sh(f'git -C /repo worktree remove --force {wt}')
    shutil.rmtree(wt, ignore_errors=True)
    r = sh(f'git -C /repo worktree add --detach -q {wt} HEAD')
    res = {}
    try:
        if r.returncode:
            return mid, {'_error': 'worktree: ' + r.stderr[-200:]}
        r = sh(f'git -C {wt} apply {d}/patch.diff')
        if r.returncode:
            return mid, {'_error': 'patch does not apply on HEAD'}
        if confirm:
            env = dict(os.environ, PYTHONPATH=wt, PYTHONDONTWRITEBYTECODE='1')
            sh(f'git -C {wt} apply -R {d}/patch.diff')
            p0 = subprocess.run(['/venv/bin/python', f'{d}/demo.py'], cwd='/tmp', env=env, capture_output=True, text=True)
            sh(f'git -C {wt} apply {d}/patch.diff')
            p1 = subprocess.run(['/venv/bin/python', f'{d}/demo.py'], cwd='/tmp', env=env, capture_output=True, text=True)
            st = sh(f'cd {wt} && PYTHONDONTWRITEBYTECODE=1 /venv/bin/python -m pytest -q -p no:cacheprovider --timeout=900 -n 4 2>&1 | tail -1')
            res['_confirm'] = {'demo_unchanged': p0.returncode, 'demo_changed': p1.returncode, 'suite': st.stdout.strip()[-60:],
                               'head': sh('git -C /repo rev-parse --short HEAD').stdout.strip()}
        for c in checks:
            t0 = time.time()
            env = dict(os.environ, DV_REPO=wt, DV_OUT=out, DV_NCPU=str(ncpu), PYTHONDONTWRITEBYTECODE='1')
            p = subprocess.run(['./run', 'check', c, '--tier', tier], cwd=HERE, env=env, capture_output=True, text=True)
            txt = p.stdout + p.stderr
            first = next((l.strip() for l in txt.splitlines() if l.strip().startswith('->')), '')
            if p.returncode == 2:
                first = next((l.strip() for l in txt.splitlines() if 'HARNESS ERROR' in l), '')
            res[c] = {'exit': p.returncode, 'wall_s': round(time.time() - t0, 1), 'first': first[:300],
                      'n_violation_lines': sum(1 for l in txt.splitlines() if l.startswith('VIOLATION'))}
    finally:
        sh(f'git -C /repo worktree remove --force {wt}')
        shutil.rmtree(wt, ignore_errors=True)
        shutil.rmtree(out, ignore_errors=True)
    return mid, res


def main():
    ap = argparse.ArgumentParser()
    ap.add_argument('--tier', default='quick')
    ap.add_argument('--only', default='')
    ap.add_argument('--checks', default='own')
    ap.add_argument('--jobs', type=int, default=4)
    ap.add_argument('--fresh', action='store_true')
    ap.add_argument('--confirm', action='store_true', help='also re-run demo.py (with/without the change) and the test suite')
    a = ap.parse_args()
    os.makedirs(MM, exist_ok=True)
    mids = sorted(x for x in os.listdir(SEEDED) if os.path.isfile(os.path.join(SEEDED, x, 'patch.diff')))
    if a.only:
        pats = a.only.split(',')
        mids = [m for m in mids if any(m == p or m.startswith(p) for p in pats)]
    have = claimed()
    jobs = []
    for m in mids:
        meta = json.load(open(os.path.join(SEEDED, m, 'meta.json')))
        if meta.get('obsolete'):
            continue
        own = meta.get('property') or m.split('-')[0]
        if a.checks == 'own':
            cs = [own] if own in have else []
        elif a.checks == 'all':
            cs = have
        else:
            cs = a.checks.split(',')
        jobs.append((m, cs))
    mpath = os.path.join(SEEDED, 'MATRIX.json')
    matrix = {}
    if os.path.exists(mpath) and not a.fresh:
        matrix = json.load(open(mpath))
    ncpu = max(2, 16 // a.jobs)
    with cf.ThreadPoolExecutor(a.jobs) as ex:
        futs = [ex.submit(run_one, m, cs, a.tier, ncpu, a.confirm) for m, cs in jobs if cs or a.confirm]
        for f in cf.as_completed(futs):
            mid, res = f.result()
            ent = matrix.setdefault(mid, {})
            for c, r in res.items():
                if c == '_confirm':
                    ent['_confirm'] = r
                elif c == '_error':
                    ent['_error'] = r
                else:
                    ent.pop('_error', None)
                    ent[f'{c}/{a.tier}'] = r
            print(mid, {k: (v.get('exit', v) if isinstance(v, dict) else v) for k, v in res.items()}, flush=True)
    json.dump(matrix, open(mpath, 'w'), indent=1, sort_keys=True)
    write_md(matrix)
    sh('git -C /repo worktree prune')


def write_md(matrix):
    lines = ['# Seeded changes x checks', '',
             'Produced by tools/matrix.py: each seeded change applied to a scratch worktree of /repo HEAD, the check run',
             'against it (exit 1 = VIOLATION reported = caught; 0 = missed; 2 = harness error).', '',
             '| seeded change | property | needs | caught by (tier: exit) | first reported symptom |', '|---|---|---|---|---|']
    for mid in sorted(matrix):
        try:
            meta = json.load(open(os.path.join(SEEDED, mid, 'meta.json')))
        except Exception:
            meta = {}
        ent = matrix[mid]
        cells = []
        first = ''
        for k in sorted(ent):
            if k == '_error':
                cells.append('ERROR ' + ent[k])
                continue
            if k == '_obsolete':
                cells.append('OBSOLETE: ' + ent[k])
                continue
            if k == '_confirm':
                v = ent[k]
                cells.append(f"[confirmed on {v['head']}: demo {v['demo_unchanged']}->{v['demo_changed']}, suite {v['suite']}]")
                continue
            v = ent[k]
            cells.append(f"{k}: {v['exit']}")
            if v['exit'] == 1 and not first:
                first = v['first']
        if meta.get('cross'):
            cells.append('NOTE: ' + meta['cross'][:220])
        if meta.get('not_demanded'):
            cells.append('NOT DEMANDED BY THE PROPERTY: ' + meta['not_demanded'][:200])
        needs = (meta.get('needs') or '')[:160].replace('|', '/').replace('\n', ' ')
        lines.append(f"| {mid} | {meta.get('property', '')} | {needs} | {'; '.join(cells)} | {first[:160].replace('|', '/')} |")
    open(os.path.join(SEEDED, 'MATRIX.md'), 'w').write('\n'.join(lines) + '\n')


if __name__ == '__main__':
    main()

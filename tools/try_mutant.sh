#!/bin/bash
# Apply a seeded change to /repo, run the given checks (quick tier), undo. usage: try_mutant.sh <patch.diff> <Cxx> [Cyy...]
p=$(realpath "$1"); shift
cd /verif
git -C /repo diff --quiet || { echo "/repo not clean"; exit 2; }
git -C /repo apply "$p" || { echo "patch does not apply"; exit 3; }
for c in "$@"; do
  out=$(./run check $c --tier ${TIER:-quick} 2>&1); rc=$?
  echo "== $c exit=$rc"; echo "$out" | grep -E "VIOLATION|KNOWN|HARNESS|->" | head -${LINES_MAX:-4}
done
git -C /repo checkout -- .

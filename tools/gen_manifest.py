#!/usr/bin/env python3
"""Regenerates /verif/MANIFEST.json from the table below (run after adding a check)."""
import json
import os

HERE = os.path.dirname(os.path.dirname(os.path.abspath(__file__)))

E1 = ('explicit-state model checking of the implementation: breadth-first search to a fixpoint over all '
      'operation histories with full-state hashing (files + live-handle dump), reference model in lock-step')
E2 = 'bounded exhaustive enumeration of a finite input/configuration product against a reference model'
E3 = 'exhaustive fault enumeration: every (failure position x failure kind), one deviation per execution, incl. kernel-enforced write failure'
E4 = 'exhaustive crash-point enumeration at source-line granularity plus all kernel-producible torn writes'
E5 = 'stateless schedule exploration: every interleaving of generator/context/read/write actions to a fixpoint, one forked process per execution'

CHECKS = {
    # id: (engine, level category, technique, level text, level note, design ref)
    'C03': ('opgraph', 'model_checking', E1,
            'Every reachable state (any history length) of each configuration with at most Lmax rows is visited; '
            'in each the live handle, a fresh handle and the raw file are compared with a NumPy model, and each '
            'transition is checked for prefix preservation / unchanged-on-reject. Right level: the defects this '
            'property guards against are history-dependent (cached shape, empty-array path).',
            'Trusted: NumPy as reference model; the payload alphabet (values are a function of colour and position); '
            'Lmax bound (3 quick, up to 5 thorough). Checkpoint/restore fidelity is validated by from-scratch replays.',
            'DESIGN.md section 4 C03, 3.3'),
    'C02': ('opgraph', 'model_checking', E1,
            'Every distinct reachable state of Array graphs (C03 alphabet + metadata ops + overwrite=True re-creation, also '
            'after diverged/rejected calls) is decoded by a reader that shares no code with Darr and compared with the '
            'model and with a fresh Darr handle; plus the exhaustive 24-pair x 3-rank type table in both directions.',
            'Trusted: my reading of docs/design.rst in dv/decoder.py (self-tested against ndarray.tofile and examplearrays/); '
            'NumPy frombuffer/reshape; bounds Lmax 2 (quick) / 3 (thorough).',
            'DESIGN.md section 4 C02, 3.1'),
    'C04': ('opgraph', 'model_checking', E1,
            'Fixpoint exploration of RaggedArray graphs (4-5 creation routes, atoms (), (2,), (2,3)/(2,1), 7 index types) '
            'against a list-of-ndarrays model; in every state len/narrays/atom/dtype/size, ra[k] for all k in [-len-1, len], '
            'non-integer indices, 36 iter_arrays parameter triples and the stored index type are compared on the live and on a fresh handle.',
            'Trusted: Python list slicing / NumPy as reference; payload alphabet; Nmax bound (3 quick, up to 5 thorough).',
            'DESIGN.md section 4 C04'),
    'C05': ('opgraph', 'model_checking', E1,
            'The C04 graphs with the independent ragged decoder as state invariant (also after rejected calls): both sub-arrays '
            'well-formed, index contiguity, integer index type, top-level len/size/atom/numtype/darrobject, decoded subarrays == model == Darr.',
            'Trusted: dv/decoder.py as the documented format; same bounds as C04.',
            'DESIGN.md section 4 C05'),
    'C08': ('opgraph', 'model_checking', E1,
            'Every distinct state of Array graphs (append/truncate/assign/metadata create-change-delete/re-creation/copy) and of '
            'RaggedArray graphs with up to 7-8 subarrays and with metadata: README.txt (also values/ and indices/) must equal the text '
            'Darr generates from a fresh handle, and labelled lines are checked against independently decoded facts.',
            'Trusted: readcodetxt() of a freshly opened handle as "the documentation Darr generates for the current on-disk state"; '
            'the semantic line checks are wording-tolerant (skipped when a label is absent).',
            'DESIGN.md section 4 C08'),
    'C11': ('opgraph', 'model_checking', E1,
            'Mode-centric state graphs for Array and RaggedArray (empty first axis, non-empty, ragged with no / only zero-length '
            'subarrays, with and without metadata, every way of obtaining mode r): every mutating entry point is a transition from '
            'every reachable state; in r it must raise with a byte-identical directory, in r+ succeed with its effect observed.',
            'Trusted: recursive byte snapshot as "every file byte-identical"; bound of 2 rows/subarrays.',
            'DESIGN.md section 4 C11'),
    'C13': ('opgraph', 'model_checking', E1,
            'Fixpoint exploration of the metadata interface over keys {a,b} x 14 value kinds and keys {a,b,c} x 3 values, for Array '
            'and RaggedArray, with and without metadata at creation; in every state all read accessors on the live and a fresh '
            'handle equal the JSON round-trip of a dict model and metadata.json exists iff the model is non-empty; transition '
            'oracle for pop/default, KeyError and the byte-identical TypeError case.',
            'Trusted: json.dumps/loads round-trip with an own NumPy converter as reference; popitem may return any present key.',
            'DESIGN.md section 4 C13'),
    'C09': ('faults', 'fault_enumeration', E3,
            'One deviation per execution, enumerated completely: start {empty, non-empty} x 4 row geometries x 0..3 chunks x every '
            'failure position x kind {iterable raises, wrong trailing shape, wrong rank, unconvertible element} x entry point, and a '
            'kernel-enforced write failure (RLIMIT_FSIZE) at the offsets around every chunk boundary (quick) / at every byte offset of '
            'the growth region (thorough); after each: raised, opens, decoder-consistent, contents == original + completed chunks, '
            'live == fresh, a further append lands correctly.',
            'Trusted: RLIMIT_FSIZE with SIGXFSZ ignored as "the file system refuses further growth"; limits below the README size '
            '(~3.9 KiB) are not explored because the limit applies to every file of the process.',
            'DESIGN.md section 4 C09, 3.5'),
    'C10': ('faults', 'fault_enumeration', E3,
            'One deviation per execution: start {no subarrays, 3 big subarrays, 700 zero-length subarrays, near index overflow} x atom '
            'rank 0..2 x 0..3 items x every failure position x kind {iterable raises, wrong atom, wrong rank, unconvertible item, index '
            'overflow of an 8-bit index type, write failure on the values file, write failure on the indices file}; after each: raised, '
            'RaggedArray opens, the independent ragged decoder accepts the directory, subarrays == original + completed items, live == fresh.',
            'Trusted: RLIMIT_FSIZE as the write-failure mechanism; limits below 10 KiB (top-level README) are not explored.',
            'DESIGN.md section 4 C10, 3.5'),
    'C17': ('crash', 'fault_enumeration', E4,
            'For ~70 scenarios (Array 1-D/2-D and RaggedArray, empty and non-empty start; append, iterappend, failing iterappend incl. '
            'the recovery path, truncate, six kinds of metadata change) every crash point at source-line granularity (thorough: '
            'byte-code granularity in Darr frames plus every line of every other Python frame) is taken by reading the directory back '
            'through the OS at that instant, and between consecutive distinct disk states every torn version the kernel can expose of '
            'each changed file; every distinct snapshot is materialised and opened with a fresh handle: it must raise, or show the '
            'state before, the state after, or original + whole chunks; metadata the old or the new dictionary.',
            'Trusted: sys.settrace events as crash points (death between two system calls inside one C call, e.g. inside ndarray.tofile, '
            'is covered by the torn variants, not observed directly); process death, not power loss; README content is outside this property.',
            'DESIGN.md section 4 C17, 3.6'),
    'C19': ('sched', 'model_checking', E5,
            'Breadth-first search over ALL interleavings, to the fixpoint of the state graph, of start/advance/close/drop of iterchunks '
            'generators with different chunk parameters, enter/exit of nested open_array contexts, slice reads and element writes of two '
            'cells lying in frame overlaps, an opening that fails part-way and an out-of-range read, on one 4 MiB Array (worlds: quick '
            '{g1,g2,x1}; thorough {g1,g2,x1,x2} and {g1,g2,g3}; both plus a read-only handle whose context opens r+); every transition is '
            'one real execution in its own forked process (so a SIGSEGV is observed), checked for: not killed, chunk == contents at the '
            'moment it was returned, StopIteration exactly at the end, read == contents and still unchanged later, write visible in the '
            'raw file / a fresh handle / the live handle, and in every quiescent state no descriptor or map of the data file left.',
            'Trusted: state canonicalisation by generic introspection of the handle and generator frames (finer than needed, never '
            'coarser); one thread; generators and contexts are one-shot, contexts exit in LIFO order.',
            'DESIGN.md section 4 C19, 3.7'),
    'C01': ('enum', 'exploration', E2,
            'Complete sub-products of (source type x byte order x layout x shape x input form x dtype argument x chunklen x fill) '
            'against np.asarray/astype/concatenate/full, compared in dtype.str, shape and bytes through the returned handle, a '
            'fresh handle and the independent decoder; rejected element types must raise TypeError with nothing created.',
            'Trusted: NumPy as reference; casts NumPy leaves undefined are kept out of the payload; quick tier fixes some '
            'dimensions at 2-4 representatives (sub-products listed in the evidence), thorough takes all 24 source types.',
            'DESIGN.md section 4 C01'),
    'C06': ('enum', 'exploration', E2,
            'The complete space of generated programs: 13 types x 2 byte orders x 8 (quick) / 13 (thorough) shapes of rank 1-5 with '
            'pairwise distinct extents and length-1 axes x 12 languages x 3 path modes, plus empty arrays; offered/withheld exactly as the '
            'tables of docs/readcode.rst (parsed at run time) say and as readcodelanguages lists; the file literal is the requested path; '
            'Python-family code is executed in a forked child, the other eight languages are parsed and interpreted by mini-interpreters '
            'of their documented read/reshape/index semantics on the real file bytes; the result must be the stored values with axes as '
            'stored / reversed; the directory must be byte-identical afterwards.',
            'Trusted: my encoding of the eight languages in dv/langs (DESIGN.md appendix A), lenient where uncertain, self-tested by '
            'fixtures in ./run selftest; element values have pairwise distinct bytes per lane so byte/axis permutations are visible.',
            'DESIGN.md section 4 C06, appendix A'),
    'C07': ('enum', 'exploration', E2,
            'All generated ragged programs over every values type x 7 index types, atom rank 0..3 x every vector of subarray lengths over '
            '{0,1,2} of length 1..3 plus longer vectors, and totals at the maximum of 8-bit index types, x 9 languages: code withheld '
            'exactly when the values or index type is unsupported per docs/readcode.rst; each program is parsed and its accessor '
            'interpreted (Python family: executed) for EVERY k and must return subarray k (axes reversed for column-major languages, an '
            'empty value with atom dimensions where the language has them); the example statement must bind the announced existing '
            'subarray; the directory must be byte-identical afterwards.',
            'Trusted: dv/langs mini-interpreters (DESIGN.md appendix A); R drop=TRUE and IDL/Matlab trailing-singleton stripping are '
            'treated as language defaults, not indexing errors.',
            'DESIGN.md section 4 C07, appendix A'),
    'C12': ('enum', 'exploration', E2,
            'Every index tuple of length 0..rank+1 over a per-axis atom set (all ints in [-n-1,n], slices, Ellipsis, None, int '
            'lists/arrays, bool masks, non-index objects) for arrays of rank 1-4 incl. empty ones: reads and writes compared '
            'with ndarray semantics (values, dtype, shape, exception class), detachedness, durability, inside/outside '
            'open_array(), and no descriptor/map left after any call.',
            'Trusted: NumPy indexing as reference; extents <= 3; reduced atom set for rank >= 3 and for writes.',
            'DESIGN.md section 4 C12'),
    'C14': ('enum', 'exploration', E2,
            'The complete grid of (n, chunklen, stepsize, startindex, endindex, include_remainder) up to N=8 (quick) / 12 '
            '(thorough) including the invalid ring around it, against a frame specification written from the property text; '
            'iterchunks as detached copies; fit_frames incl. float arguments and a fixed list of large values.',
            'Trusted: frames_spec/fit_spec in dv/checks/c14.py as the reading of the property text.',
            'DESIGN.md section 4 C14'),
    'C15': ('enum', 'exploration', E2,
            'Array.copy over source types x all 14 dtype arguments x shapes incl. first axis 0 x chunklen x accessmode x metadata; '
            'RaggedArray.copy over {no subarrays, only empty, mixed} x atoms x dtype arguments; independence by exhaustive '
            'enumeration of every history up to depth 2 (quick) / 3 (thorough) over 6 mutating actions x {source, copy}; archive '
            'over compression types x path form x existing archive x overwrite with tarfile extraction compared byte for byte.',
            'Trusted: NumPy astype as cast reference; tarfile (stdlib) for extraction; recursive byte snapshot for "unchanged".',
            'DESIGN.md section 4 C15'),
    'C16': ('enum', 'exploration', E2,
            'The complete product of foreign content kinds x locations x target kinds x call forms for both delete functions, and of '
            '8 creating calls x 7 previous occupants x overwrite flag, judged by an lstat-level byte snapshot of the parent directory '
            'including the outside targets of planted symlinks.',
            'Trusted: the snapshot; symlinks carrying a Darr file name are left out as ambiguous.',
            'DESIGN.md section 4 C16'),
    'C18': ('enum', 'exploration', E2,
            'Every single-field corruption of a valid descriptor (removed / retyped / invalid token / each shape corruption / every '
            'other numtype / every proper prefix of the file / every wrong data-file length) on 7 base arrays incl. 1-byte types, '
            'an empty array and both sub-arrays of a ragged array; a mutant is a case iff the independent decoder rejects it; all '
            'entry points must raise and delete/truncate by path must raise TypeError and change nothing.',
            'Trusted: dv/decoder.py as the arbiter of validity (differential oracle).',
            'DESIGN.md section 4 C18'),
    'C20': ('enum', 'exploration', E2,
            'The complete product of 13 DataDir calls x every protected name of Array and RaggedArray (incl. absent metadata.json, '
            'sub-directories and files beneath them) x 10 spellings x overwrite flag, multi-name delete_files lists, plus user-file '
            'round-trips, overwrite refusal and exact deletion.',
            'Trusted: recursive byte snapshot; symlinks to protected files are not among the spellings.',
            'DESIGN.md section 4 C20'),
}

NOT_YET = {
}

PROPS = [json.loads(l)['id'] for l in open(os.path.join(HERE, 'properties.jsonl'))]


def main():
    checks = []
    for pid in PROPS:
        if pid not in CHECKS:
            continue
        eng, cat, tech, text, note, ref = CHECKS[pid]
        checks.append({
            'property_id': pid,
            'quick_cmd': f'./run check {pid} --tier quick',
            'thorough_cmd': f'./run check {pid} --tier thorough',
            'evidence_file': f'/verif/evidence/{pid}.json',
            'replay_cmd_template': './run replay {path}',
            'engine': eng,
            'level_claimed': {'category': cat, 'text': text, 'design_ref': ref},
            'level_note': note,
            'technique': tech,
        })
    na = [{'property_id': p, 'reason': NOT_YET.get(p, 'check not built yet (construction in progress; see DESIGN.md section 4 for the planned model-checking engine)')}
          for p in PROPS if p not in CHECKS]
    man = {
        'version': 1,
        'setup_cmd': './run setup',
        'hooks': {
            'guard': 'GBECKERS_DARR_VERIF',
            'enable': 'no source hooks are needed: checks import /repo/darr as it is (./run exports GBECKERS_DARR_VERIF=1, which nothing in the repository reads)',
            'baseline_off_cmd': 'cd /repo && /venv/bin/python -m pytest -ra -q -p no:cacheprovider --timeout=900 --continue-on-collection-errors',
            'source_commits': [],
            'add_only': True,
        },
        'engines': [
            {'name': 'opgraph', 'path': 'dv/engines/opgraph.py', 'serves_properties': ['C02', 'C03', 'C04', 'C05', 'C08', 'C11', 'C13', 'C15'], 'kind_free_text': E1},
            {'name': 'enum', 'path': 'dv/engines/enum.py', 'serves_properties': ['C01', 'C06', 'C07', 'C12', 'C14', 'C15', 'C16', 'C18', 'C20'], 'kind_free_text': E2},
            {'name': 'faults', 'path': 'dv/engines/faults.py', 'serves_properties': ['C09', 'C10'], 'kind_free_text': E3},
            {'name': 'crash', 'path': 'dv/engines/crash.py', 'serves_properties': ['C17'], 'kind_free_text': E4},
            {'name': 'sched', 'path': 'dv/engines/sched.py', 'serves_properties': ['C19'], 'kind_free_text': E5},
        ],
        'checks': checks,
        'not_applicable': na,
        'notes': 'All checks are bounded exhaustive exploration of the real implementation (model checking family); see DESIGN.md. '
                 'Exit 0 = held (possibly after KNOWN-FINDING lines), 1 = VIOLATION, 2 = harness error.',
    }
    with open(os.path.join(HERE, 'MANIFEST.json'), 'w') as f:
        json.dump(man, f, indent=1)
    print(f'{len(checks)} checks, {len(na)} not yet claimed')


if __name__ == '__main__':
    main()

"""Run a family of E1 state graphs (one per configuration) in parallel and report."""
import collections
import importlib

from .common import NCPU, pmap, jdump
from .engines import opgraph
from .report import HarnessError, Reporter


def _resolve(factory):
    mod, name = factory.split(':')
    return getattr(importlib.import_module(mod), name)


def _run_one(job):
    factory, cfg, keep, validate_every, max_states, procs = job
    mk = _resolve(factory)
    res = opgraph.explore(mk, cfg, validate_every=validate_every, max_states=max_states,
                          keep=set(keep) if keep is not None else None, procs=procs)
    return {'cfg': cfg, 'summary': res.summary(), 'violations': res.violations,
            'samples': res.samples, 'cap_hit': res.cap_hit}


def run_graphs(prop, tier, factory, cfgs, keep, *, single_outcome_ok=(), assumptions=(),
               validate_every=None, max_states=200000, rule='', engine='opgraph',
               require_bound_hit=True, extra_cov=None, pre_violations=()):
    """factory: 'module:callable' building a System from a cfg dict."""
    rep = Reporter(prop, tier, engine)
    for (sig, what, replay) in pre_violations:
        rep.violation(sig, what, replay)
    if validate_every is None:
        validate_every = 1 if tier == 'thorough' else 10
    # big graphs are searched one at a time with level-synchronous parallel expansion over all cores; the many small ones
    # run side by side, one process each
    def is_big(c):
        return c.get('Lmax', 0) >= 4 or (c.get('Nmax', 0) >= 5 and 'long' not in c.get('features', ())) or c.get('big_graph')
    big = [c for c in cfgs if is_big(c)]
    small = [c for c in cfgs if not is_big(c)]
    inner = max(1, NCPU // max(1, len(small)))
    mk = lambda c, procs: (factory, c, sorted(keep) if keep is not None else None, validate_every, max_states, procs)
    jobs = [mk(c, inner) for c in small]
    big_jobs = [mk(c, NCPU) for c in big]
    from .common import fork_map

    def died(job, status):
        # the code under test killed the interpreter (e.g. SIGBUS / SIGSEGV from a stale memory map) while this graph was
        # explored: that is a violation of any property; the graph is reported with no coverage
        import signal as _sg
        name = _sg.Signals(status & 0x7f).name if (status & 0x7f) else f'status {status}'
        return {'cfg': job[1], 'summary': {'states': 0, 'transitions': 0, 'pruned_transitions': 0, 'validated': 0, 'bound_hits': 0,
                                           'max_depth': 0, 'outcomes': {}, 'closed': False},
                'violations': [({'oracle': '*', 'op': 'explore', 'symptom': f'interpreter killed ({name})'},
                                f'the interpreter was killed by {name} while the state graph of {_short(job[1])} was explored',
                                {'config': job[1], 'history': []})],
                'samples': [], 'cap_hit': None}
    results = []
    for bj in big_jobs:
        results += fork_map(_run_one, [bj], procs=1, on_death=died, always_fork=True)
    if jobs:
        results += fork_map(_run_one, jobs, procs=min(NCPU, len(jobs)), on_death=died)
    tot = collections.Counter()
    outcomes = collections.defaultdict(collections.Counter)
    samples = []
    per_graph = []
    caps = []
    for r in results:
        s = r['summary']
        for k in ('states', 'transitions', 'pruned_transitions', 'validated', 'bound_hits'):
            tot[k] += s[k]
        tot['max_depth'] = max(tot['max_depth'], s['max_depth'])
        for op, c in s['outcomes'].items():
            outcomes[op].update(c)
        for (sig, what, replay) in r['violations']:
            replay = dict(replay, factory=factory, keep=sorted(keep) if keep is not None else None)
            rep.violation(sig, what, replay)
        if r['samples'] and len(samples) < 4:
            samples.append({'config': r['cfg'], 'history': r['samples'][-1]})
        per_graph.append({'config': _short(r['cfg']), 'states': s['states'],
                          'transitions': s['transitions'], 'pruned': s['pruned_transitions'],
                          'closed': s['closed']})
        if r['cap_hit']:
            caps.append({'config': _short(r['cfg']), 'cap': r['cap_hit']})
    # ---- vacuity guards (harness errors, not passes) ----
    problems = []
    started = [r for r in results if r['summary']['states'] > 0]
    if not started:
        # every start state was rejected; that is a violation report, not vacuity
        pass
    else:
        for op, c in outcomes.items():
            if len(c) < 2 and op not in single_outcome_ok:
                problems.append(f'operation {op!r} had a single outcome {dict(c)} in every state')
        if require_bound_hit and tot['bound_hits'] == 0:
            problems.append('no growing operation was ever disabled by the bound (bound not reached)')
        if tot['transitions'] and tot['pruned_transitions'] > 0.5 * tot['transitions'] and rep.n_viol == 0 \
                and not rep.known_hits:
            problems.append('more than half of all transitions were pruned without a reported violation')
    if problems and rep.n_viol == 0:
        raise HarnessError('vacuous exploration: ' + '; '.join(problems))
    cov = {
        'states': tot['states'], 'transitions': tot['transitions'],
        'traces_validated_against_impl': tot['validated'],
        'samples': samples or [{'config': _short(cfgs[0]), 'history': []}],
        'graphs': len(cfgs), 'max_depth': tot['max_depth'],
        'pruned_transitions': tot['pruned_transitions'],
        'all_graphs_closed_at_fixpoint': not caps,
        'caps_hit': caps,
        'exhaustive': not caps,
        'outcomes_per_operation': {k: dict(v) for k, v in sorted(outcomes.items())},
        'per_graph': per_graph if len(per_graph) <= 40 else per_graph[:40] + [{'more': len(per_graph) - 40}],
        'rule': rule,
        'validation': (f'BFS-shortest history of every {validate_every}th state and of the deepest states '
                       f're-executed from scratch without checkpoint/restore; must reach the same full-state hash'),
    }
    if extra_cov:
        cov.update(extra_cov)
    return rep.finish('model_checking', cov, assumptions)


def _short(cfg):
    return {k: v for k, v in cfg.items() if k not in ('oracles', 'features')}


def replay_graph(rec):
    """Replay artefact of an E1 check: plain re-execution, twice, same observations."""
    mk = _resolve(rec['factory'])
    keep = set(rec['keep']) if rec.get('keep') is not None else None
    runs = []
    for _ in range(2):
        v = opgraph.replay_history(mk, rec['config'], rec['history'], keep=keep)
        runs.append([(jdump(s), w) for (s, w, d) in v])
    if runs[0] != runs[1]:
        print('REPLAY NOT DETERMINISTIC: two executions of the same history differ')
        print(runs[0])
        print(runs[1])
        return 2
    print(f"replay of {rec['property']} history {rec['history']} on config {_short(rec['config'])}:")
    if not runs[0]:
        print('  no violation observed')
        return 0
    for s, w in runs[0]:
        print(f'  violation: {w}\n     signature={s}')
    return 1

"""E1 system for C13: the metadata of an Array / RaggedArray against a dict model."""
import json
import math
import os

import numpy as np

from . import payload, snapshot
from .common import import_darr, outcome_of, exc_class, sha
from .engines.opgraph import StepResult, System
from .sys_array import viol

VALUES = {
    'int': 1, 'float': 2.5, 'nan': float('nan'), 'inf': float('inf'), 'uni': 'é x \U0001F600',
    'ctl': 'ctl\x01\n"q"', 'true': True, 'none': None, 'nest': [1, [2, 'x']], 'dict': {'n': {'m': 1}},
    'npint': np.int16(3), 'npfloat': np.float32(1.5), 'nparr': np.arange(3), 'bytes': b'bytes',
    # integers a double cannot hold exactly: they must be stored as exact native numbers
    'nparr1': np.array([4]), 'nparr11': np.array([[0.25]]),      # one-element arrays stay (nested) lists
    'npbig': np.int64(2 ** 53 + 1), 'npubig': np.uint64(2 ** 64 - 1), 'pybig': 2 ** 63 + 12345,
}
SMALL = ['int', 'uni', 'nest']
MISSING = object()


def _conv(o):
    if isinstance(o, np.integer):
        return int(o)
    if isinstance(o, np.floating):
        return float(o)
    if isinstance(o, np.ndarray):
        return o.tolist()
    if isinstance(o, (bytes, bytearray)):
        return o.decode('utf-8')
    raise TypeError(type(o))


def roundtrip(x):
    """The 'JSON round-trip' of the property text."""
    return json.loads(json.dumps(x, default=_conv))


def jeq(a, b):
    """Equality that treats NaN as equal to NaN and distinguishes bool from int, int from float."""
    if isinstance(a, float) and isinstance(b, float) and math.isnan(a) and math.isnan(b):
        return True
    if type(a) is not type(b):
        return False
    if isinstance(a, dict):
        return a.keys() == b.keys() and all(jeq(a[k], b[k]) for k in a)
    if isinstance(a, list):
        return len(a) == len(b) and all(jeq(x, y) for x, y in zip(a, b))
    return a == b


class MetaSys(System):
    """cfg: kind ('array'|'ragged'), start ('none'|'given'), family ('two'|'three')"""

    def __init__(self, cfg):
        self.cfg = cfg
        self.root = 'g'
        self.darr = import_darr()

    @property
    def path(self):
        return os.path.join(self.root, 'x.darr')

    def _open(self, mode='r+'):
        if self.cfg['kind'] == 'array':
            return self.darr.Array(self.path, accessmode=mode)
        return self.darr.RaggedArray(self.path, accessmode=mode)

    def build(self):
        os.makedirs(self.root, exist_ok=True)
        start = {'a': VALUES['int'], 'b': VALUES['uni']} if self.cfg['start'] == 'given' else \
            ({} if self.cfg['start'] == 'emptydict' else None)
        if self.cfg['kind'] == 'array':
            h = self.darr.asarray(self.path, np.arange(3, dtype='<i4'), metadata=start, accessmode='r+')
        else:
            h = self.darr.asraggedarray(self.path, [[1, 2], [3]], metadata=start, accessmode='r+')
        self.handles = {'h': h}
        self.model = dict(start or {})
        return []

    def copy_model(self):
        return dict(self.model)

    def set_model(self, m):
        self.model = dict(m)

    def model_canon(self):
        return sha(json.dumps(roundtrip(self.model), sort_keys=True))

    def abstract(self):
        return f'nkeys={len(self.model)}'

    def enabled(self):
        ops = []
        if self.cfg['family'] == 'two':
            for v in VALUES:
                ops.append(('setitem', 'a', v))
                ops.append(('update', 'b', v))
            keys = ['a', 'b']
            ops += [('update2', 'int', 'uni'), ('updatekw', 'a', 'float')]
        else:
            keys = ['a', 'b', 'c']
            for i, k in enumerate(keys):
                for v in SMALL:
                    ops.append(('setitem' if i % 2 == 0 else 'updatekw', k, v))
            ops += [('update2', 'nest', 'int'), ('update3',)]
        ops += [('update_empty',), ('updboth', 'a')]
        for k in keys + ['zz']:
            ops += [('pop', k), ('popdef', k), ('del', k)]
        ops += [('popsame', 'a'), ('popsame', 'b')]
        ops += [('popitem',), ('bad', 'a', 'object'), ('bad', 'zz', 'set'), ('reopen',)]
        return ops, 0

    # ------------------------------------------------------------------ step
    def step(self, op):
        h = self.handles['h']
        md = h.metadata
        m = self.model
        kind = op[0]
        opdesc = '/'.join(str(x) for x in op)
        pre = self.abstract()
        new = dict(m)
        expect_exc = None
        retcheck = None
        unchanged_bytes = False
        if kind == 'setitem':
            call = lambda: md.__setitem__(op[1], VALUES[op[2]])
            new[op[1]] = VALUES[op[2]]
        elif kind == 'update':
            call = lambda: md.update({op[1]: VALUES[op[2]]})
            new[op[1]] = VALUES[op[2]]
        elif kind == 'updatekw':
            call = lambda: md.update(**{op[1]: VALUES[op[2]]})
            new[op[1]] = VALUES[op[2]]
        elif kind == 'update2':
            call = lambda: md.update({'a': VALUES[op[1]], 'b': VALUES[op[2]]})
            new['a'], new['b'] = VALUES[op[1]], VALUES[op[2]]
        elif kind == 'update3':
            call = lambda: md.update({'c': 1}, a='x', b=[1])
            new.update({'c': 1, 'a': 'x', 'b': [1]})
        elif kind == 'updboth':        # the same key given positionally and by keyword: the keyword wins, as in dict.update
            call = lambda: md.update({op[1]: 1}, **{op[1]: 44100})
            new[op[1]] = 44100
        elif kind == 'update_empty':
            call = lambda: md.update({})
        elif kind == 'pop':
            call = lambda: md.pop(op[1])
            if op[1] in m:
                want = roundtrip(m[op[1]])
                retcheck = lambda r: jeq(r, want)
                del new[op[1]]
            else:
                expect_exc = KeyError
        elif kind == 'popdef':
            call = lambda: md.pop(op[1], 'dflt')
            want = roundtrip(m[op[1]]) if op[1] in m else 'dflt'
            retcheck = lambda r: jeq(r, want)
            new.pop(op[1], None)
        elif kind == 'popsame':
            # default equal to (for None/bool/small ints: identical with) the stored value
            dflt = roundtrip(m[op[1]]) if op[1] in m else None
            call = lambda: md.pop(op[1], dflt)
            retcheck = lambda r: jeq(r, dflt)
            new.pop(op[1], None)
        elif kind == 'del':
            call = lambda: md.__delitem__(op[1])
            if op[1] in m:
                del new[op[1]]
            else:
                expect_exc = KeyError
        elif kind == 'popitem':
            call = lambda: md.popitem()
            if not m:
                expect_exc = KeyError
        elif kind == 'bad':
            bad = object() if op[2] == 'object' else {1, 2}
            call = lambda: md.update({op[1]: bad})
            expect_exc = TypeError
            unchanged_bytes = True
        elif kind == 'reopen':
            call = lambda: self.handles.__setitem__('h', self._open())
        else:
            raise KeyError(op)
        before = snapshot.snap(self.root) if unchanged_bytes else None
        what, val = outcome_of(call)
        label = what if what == 'returns' else f'raises:{exc_class(val)}'
        V = []
        if expect_exc is not None:
            if what == 'returns' or not isinstance(val, expect_exc):
                V.append(viol('meta', opdesc, pre, f'{label} (expected {expect_exc.__name__})',
                              f'metadata {opdesc} with {len(m)} keys: {label}, expected {expect_exc.__name__}'))
                return StepResult(label, V, diverged=True)
            if unchanged_bytes and snapshot.snap(self.root) != before:
                V.append(viol('meta', opdesc, pre, 'non-serialisable update changed files',
                              f'metadata {opdesc} raised TypeError but the directory changed: '
                              f'{snapshot.diff(before, snapshot.snap(self.root))}'))
                return StepResult(label, V, diverged=True)
            return StepResult(label, V)
        if what == 'raises':
            V.append(viol('meta', opdesc, pre, f'{label} (model: returns)',
                          f'metadata {opdesc} with {len(m)} keys present={op[1] in m if len(op) > 1 else None}: {val!r}'))
            return StepResult(label, V, diverged=True)
        if kind == 'popitem':
            try:
                k, v = val
                ok = k in m and jeq(v, roundtrip(m[k]))
            except Exception:  # noqa: BLE001
                ok = False
            if not ok:
                V.append(viol('meta', opdesc, pre, 'popitem returned a pair that is not in the model',
                              f'popitem returned {val!r}'))
                return StepResult(label, V, diverged=True)
            del new[k]
        if retcheck is not None and not retcheck(val):
            V.append(viol('meta', opdesc, pre, 'returned value differs from model',
                          f'metadata {opdesc} returned {val!r}'))
            return StepResult(label, V, diverged=True)
        self.model = new
        # model agreement needed to go on
        got = outcome_of(lambda: dict(self.handles['h'].metadata))
        if got[0] == 'raises' or not jeq(got[1], roundtrip(new)):
            V.append(viol('meta', opdesc, pre, 'dict(metadata) differs from model afterwards',
                          f'after metadata {opdesc}: {got[1]!r} vs model {roundtrip(new)!r}'))
            return StepResult(label, V, diverged=True)
        return StepResult(label, V)

    # ------------------------------------------------------------------ invariant
    def invariant(self):
        V = []
        want = roundtrip(self.model)
        pre = self.abstract()
        mp = os.path.join(self.path, 'metadata.json')
        if os.path.exists(mp) != bool(want):
            V.append(viol('meta', 'observe', pre, 'metadata.json existence does not match emptiness',
                          f'metadata.json exists={os.path.exists(mp)} while the model has {len(want)} keys'))
        for name, mk in (('live', lambda: self.handles['h']), ('fresh', lambda: self._open('r'))):
            what, val = outcome_of(lambda: self._observe(mk().metadata, want))
            if what == 'raises':
                V.append(viol('meta', 'observe', pre, f'{name} accessor raises:{exc_class(val)}',
                              f'{name} handle: reading metadata raises {val!r}'))
            else:
                for sym in val:
                    V.append(viol('meta', 'observe', pre, f'{name}: {sym}', f'{name} handle: {sym} (model {want!r})'))
        return V

    @staticmethod
    def _observe(md, want):
        bad = []
        if not jeq(dict(md), want):
            bad.append('dict() differs')
        if len(md) != len(want):
            bad.append('len differs')
        for k in ('a', 'b', 'c', 'zz'):
            if (k in md) != (k in want):
                bad.append('in differs')
            if k in want:
                if not jeq(md[k], want[k]):
                    bad.append('[] differs')
                if not jeq(md.get(k), want[k]) or not jeq(md.get(k, 'd'), want[k]):
                    bad.append('get differs')
            else:
                w, v = outcome_of(lambda: md[k])
                if w == 'returns' or not isinstance(v, KeyError):
                    bad.append('[] of a missing key does not raise KeyError')
                if md.get(k) is not None or md.get(k, 'd') != 'd':
                    bad.append('get of a missing key differs')
        if sorted(md.keys()) != sorted(want.keys()):
            bad.append('keys differ')
        if not jeq(dict(md.items()), want):
            bad.append('items differ')
        vals = list(md.values())
        wv = [want[k] for k in md.keys()] if sorted(md.keys()) == sorted(want.keys()) else None
        if wv is None or not jeq(vals, wv):
            bad.append('values differ')
        return sorted(set(bad))

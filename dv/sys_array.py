"""E1 system for Array: real darr.Array handle + NumPy reference model.

Oracle tags:  'model'  (C03)   history == NumPy model, persistence, prefix bytes
              'format' (C02)   independent decoder agrees with the API
              'readme' (C08)   README.txt is what Darr generates for the current state
"""
import json
import os

import numpy as np

from . import decoder, payload, snapshot
from .common import fresh_dir, import_darr, outcome_of, exc_class, sha, jsonable
from .engines.opgraph import StepResult, System

TRUNC_KS = [0, 1, -1, 'len', 'len+1', '-len-1', 1.0, '1', 'np1']


class ArrayModel:
    def __init__(self, arr, mode, meta=None):
        self.arr = arr            # ndarray with the array's dtype (byte order included)
        self.mode = mode
        self.meta = dict(meta or {})

    def copy(self):
        return ArrayModel(self.arr.copy(), self.mode, json.loads(json.dumps(self.meta)))

    def canon(self):
        return sha(self.arr.dtype.str, repr(self.arr.shape), self.arr.tobytes(), self.mode,
                   json.dumps(self.meta, sort_keys=True))


def viol(oracle, op, pre, symptom, what, **detail):
    sig = {'oracle': oracle, 'op': op, 'pre': pre, 'symptom': symptom}
    return (sig, what, detail)


class ArraySys(System):
    """cfg: dtype (str), trail (list), start_len, Lmax, oracles (list), features (list)."""

    def __init__(self, cfg):
        self.cfg = cfg
        self.dtype0 = np.dtype(cfg['dtype'])
        self.trail0 = tuple(cfg['trail'])
        self.model = None
        self.Lmax = cfg['Lmax']
        self.oracles = set(cfg.get('oracles', ['model']))
        self.features = set(cfg.get('features', []))
        self.root = 'g'
        self.darr = import_darr()

    # the array's current dtype / trailing shape (a re-creation may change them)
    @property
    def dtype(self):
        return self.model.arr.dtype if self.model is not None else self.dtype0

    @property
    def trail(self):
        return tuple(self.model.arr.shape[1:]) if self.model is not None else self.trail0

    # ------------------------------------------------------------------ build
    @property
    def path(self):
        return os.path.join(self.root, 'arr.darr')

    def build(self):
        os.makedirs(self.root, exist_ok=True)
        n0 = self.cfg['start_len']
        if n0 == 0:
            a = self.darr.create_array(self.path, shape=(0,) + self.trail, dtype=self.dtype,
                                       accessmode='r+')
            ref = np.zeros((0,) + self.trail, dtype=self.dtype)
        else:
            ref = payload.values('I', n0, self.trail, self.dtype)
            a = self.darr.asarray(self.path, ref, accessmode='r+')
        self.handles = {'a': a}
        self.model = ArrayModel(ref, 'r+')
        got = a[:]
        if not payload.same_bits(got, ref):
            return [viol('start', 'create', f'len=={n0}', 'start state differs from model',
                         f'creation of start state ({self.cfg}) does not match the model',
                         got=jsonable(got), expected=jsonable(ref))]
        return []

    # ------------------------------------------------------------------ model plumbing
    def copy_model(self):
        return self.model.copy()

    def set_model(self, m):
        self.model = m.copy()

    def model_canon(self):
        return self.model.canon()

    def abstract(self):
        n = len(self.model.arr)
        return 'len==0' if n == 0 else ('len==1' if n == 1 else 'len>1')

    # ------------------------------------------------------------------ alphabet
    def chunk(self, colour):
        """(object handed to Darr, reference ndarray of the array's dtype)"""
        dt, tr = self.dtype, self.trail
        if colour == 'A':
            x = payload.values('A', 1, tr, dt)
            return x, x
        if colour == 'G':
            x = payload.values('G', 1, tr, dt)
            return x, x
        if colour == 'B':
            ref = payload.values('B', 2, tr, dt)
            return ref.tolist(), np.asarray(ref.tolist()).astype(dt)
        if colour == 'C':
            src = payload.other_dtype_source('C', 1, tr, dt)
            return src, np.asarray(src).astype(dt)
        if colour == 'F':      # two rows, Fortran-contiguous (not C-contiguous when the trailing shape has > 1 element)
            ref = payload.values('G', 2, tr, dt)
            return np.asfortranarray(ref), ref
        if colour == 'Z':
            x = np.zeros((0,) + tr, dtype=dt)
            return x, x
        if colour == 'E':      # same numeric type, opposite byte order
            ref = payload.values('H', 1, tr, dt)
            return ref.astype(dt.newbyteorder('S')), ref
        if colour == 'S0':     # 0-d ndarray: Darr may reject it or take it as one element
            return np.array(9, dtype=dt), np.array([9], dtype=dt)
        if colour == 'S':
            return 7, np.array([7], dtype=dt)
        if colour == 'badtrail':
            return np.zeros((1,) + tr[:-1] + ((tr[-1] + 1,) if tr else (3,)), dtype=dt), None
        if colour == 'badtrail0':     # zero rows, wrong trailing shape: nothing to write, still incompatible
            return np.zeros((0,) + tr[:-1] + ((tr[-1] + 1,) if tr else (3,)), dtype=dt), None
        if colour == 'badzero':       # rows whose trailing shape has a zero extent
            return np.zeros((2,) + tr[:-1] + (0,), dtype=dt), None
        if colour == 'badrank':
            if tr:
                return np.zeros(tr, dtype=dt), None       # one row given without its first axis
            return np.zeros((1, 1), dtype=dt), None
        if colour == 'unconv':
            bad = np.full((1,) + tr, 'x', dtype=object).tolist()
            return bad, None
        raise KeyError(colour)

    def enabled(self):
        m = self.model
        n = len(m.arr)
        room = self.Lmax - n
        ops, disabled = [], 0
        grow = [(('append', 'A'), 1), (('append', 'B'), 2), (('append', 'C'), 1),
                (('iterappend', 'list2'), 2), (('iterappend', 'gen1'), 1),
                (('iterappend', 'ZA'), 1), (('iterappend', 'Abad'), 1), (('iterappend', 'ctxAG'), 2), (('iterappend', 'ctxAT'), 2)]
        if self.trail:
            grow.append((('append', 'F'), 2))
        if not self.trail:
            grow.append((('append', 'S'), 1))
            grow.append((('append', 'S0'), 1))
        if self.dtype.itemsize > 1:
            grow.append((('append', 'E'), 1))
        for op, k in grow:
            if k <= room:
                ops.append(op)
            else:
                disabled += 1
        full = 'model' in self.oracles
        ops += [('append', 'Z'), ('iterappend', 'empty'), ('append', 'badtrail'), ('append', 'badrank')]
        if full:
            ops += [('append', 'unconv'), ('append', 'badtrail0'), ('append', 'badzero')]
        if n > 0:
            ops += [('assign', 0, 'V1'), ('assign', -1, 'V2')]
        ops += [('truncate', k) for k in (TRUNC_KS if full else [0, -1, 'len+1'])]
        ops += [('mode', 'r'), ('mode', 'r+'), ('reopen',), ('truncpath', 0), ('truncpath', -1)]
        if 'meta' in self.features:
            ops += [('meta', 'set', 'a'), ('meta', 'set', 'b'), ('meta', 'del', 'a'),
                    ('meta', 'del', 'b'), ('meta', 'change', 'a'), ('meta', 'popitem', 'any')]
        if 'meta1' in self.features:
            ops += [('meta', 'set', 'a'), ('meta', 'del', 'a'), ('meta', 'change', 'a'), ('meta', 'popitem', 'any')]
        if 'recreate' in self.features:
            ops += [('recreate', 'other'), ('recreate', 'meta'), ('recreate', 'same0'), ('recreate', 'genmix'),
                    ('recreate', 'strided'), ('recreate', 'reject')]
        if 'copy' in self.features:
            ops += [('copycheck',)]
        return ops, disabled

    # ------------------------------------------------------------------ helpers
    def _k(self, k):
        n = len(self.model.arr)
        if k == 'np1':
            return np.int64(1)            # not an int: must be refused with TypeError, like 1.0
        return {'len': n, 'len+1': n + 1, '-len-1': -n - 1}.get(k, k) if isinstance(k, str) and k != '1' else k

    def _visible(self):
        a = self.handles['a']
        return (a.dtype.str, tuple(a.shape), a[:].tobytes())

    def _decoded(self):
        try:
            arr, d = decoder.decode_array(self.path)
            return (arr.dtype.str, arr.shape, arr.tobytes())
        except decoder.FormatError as e:
            return ('undecodable', str(e))

    # ------------------------------------------------------------------ step
    def step(self, op):
        r = self._step(op)
        if r.diverged and 'format' in self.oracles:
            # model and implementation have parted; the directory must still be self-describing
            pre = 'after ' + '/'.join(str(x) for x in op)
            r.violations += self._format_vs_api(self.path, 'diverged', pre)
        return r

    def _format_vs_api(self, path, op, pre):
        try:
            dec, d = decoder.decode_array(path)
        except decoder.FormatError as e:
            return [viol('format', op, pre, f'not decodable: {_cls(str(e))}',
                         f'directory is not self-describing {pre}: {e}')]
        try:
            fresh = self.darr.Array(path)
            if not payload.same_bits(dec, fresh[:]):
                return [viol('format', op, pre, 'decoded array differs from what Darr reports',
                             f'independent reader gets {dec.dtype.str} {dec.shape}, Darr {fresh.dtype.str} {fresh.shape}')]
        except Exception as e:  # noqa: BLE001
            return [viol('format', op, pre, f'decodable but Darr cannot open: {exc_class(e)}', repr(e))]
        return []

    def _step(self, op):
        darr = self.darr
        a = self.handles['a']
        m = self.model
        kind = op[0]
        pre = self.abstract() + ',' + m.mode
        old_data = self._read_data()
        old_arr = m.arr
        vis0 = dec0 = None
        V = []
        expect = None          # 'returns' / 'raises'
        newarr = m.arr
        newmeta = m.meta
        mutating = True
        appendlike = False
        trunc_newlen = None
        partial = False

        if kind in ('append', 'iterappend'):
            appendlike = True
            if kind == 'append':
                obj, ref = self.chunk(op[1])
                refs = [ref]
                call = lambda: a.append(obj)
            else:
                spec = op[1]
                if spec == 'list2':
                    cs = [self.chunk('A'), self.chunk('G')]
                    it = [c[0] for c in cs]
                elif spec == 'gen1':
                    cs = [self.chunk('A')]
                    it = (c[0] for c in cs)
                elif spec == 'empty':
                    cs = []
                    it = []
                elif spec == 'ZA':
                    cs = [self.chunk('Z'), self.chunk('A')]
                    it = iter([c[0] for c in cs])
                elif spec == 'Abad':           # fails part-way: the completed chunk stays (C09), everything must be current
                    cs = [self.chunk('A')]
                    it = [cs[0][0], self.chunk('badtrail')[0], self.chunk('G')[0]]
                    partial = True
                elif spec == 'ctxAG':          # two appends inside one open_array() context
                    cs = [self.chunk('A'), self.chunk('G')]
                    it = None
                elif spec == 'ctxAT':          # an append, then a truncation by one row, inside one open_array() context
                    cs = [self.chunk('A'), self.chunk('G')]
                    it = None
                refs = [c[1] for c in cs]
                call = lambda: a.iterappend(it)
                if spec == 'ctxAG':
                    def call():
                        with a.open_array():
                            a.append(cs[0][0])
                            a.append(cs[1][0])
                if spec == 'ctxAT':
                    def call():
                        with a.open_array():
                            a.append(cs[0][0])
                            a.append(cs[1][0])
                            darr.truncate_array(a, len(a) - 1)
                    refs = [cs[0][1]]          # net effect: one row appended
            if kind == 'append' and op[1] == 'S0' and m.mode != 'r':
                expect = 'either'
                newarr = np.concatenate([m.arr] + refs).astype(self.dtype)
            elif m.mode == 'r' or any(r is None for r in refs):
                expect = 'raises'
                partial = False
            elif partial:
                expect = 'raises'
                newarr = np.concatenate([m.arr] + refs).astype(self.dtype)
            else:
                expect = 'returns'
                if refs:
                    newarr = np.concatenate([m.arr] + refs).astype(self.dtype)
        elif kind == 'assign':
            idx, colour = op[1], op[2]
            val = payload.values(colour, 1, self.trail, self.dtype)[0]
            call = lambda: a.__setitem__(idx, val)
            if m.mode == 'r':
                expect = 'raises'
            else:
                expect = 'returns'
                newarr = m.arr.copy()
                newarr[idx] = val
        elif kind in ('truncate', 'truncpath'):
            k = self._k(op[1])
            bypath = kind == 'truncpath'
            if bypath:
                call = lambda: darr.truncate_array(self.path, k)
            else:
                call = lambda: darr.truncate_array(a, k)
            ok = isinstance(k, int)
            if ok:
                nl = len(m.arr[:k])
                ok = 0 <= nl < len(m.arr)
            if (m.mode == 'r' and not bypath) or not ok:
                expect = 'raises'
            else:
                expect = 'returns'
                newarr = m.arr[:k].copy()
                trunc_newlen = len(newarr)
        elif kind == 'mode':
            mutating = False
            call = lambda: setattr(a, 'accessmode', op[1])
            expect = 'returns'
        elif kind == 'reopen':
            mutating = False
            call = lambda: self.handles.__setitem__('a', darr.Array(self.path, accessmode=m.mode))
            expect = 'returns'
        elif kind == 'meta':
            return self._step_meta(op, pre)
        elif kind == 'recreate':
            return self._step_recreate(op, pre)
        elif kind == 'copycheck':
            return self._step_copy(op, pre)
        else:
            raise KeyError(op)

        if expect in ('raises', 'either'):
            vis0, dec0 = self._visible(), self._decoded()
        what, val = outcome_of(call)
        if expect == 'either':
            expect = what
        label = what if what == 'returns' else f'raises:{exc_class(val)}'
        a = self.handles['a']
        opdesc = '/'.join(str(x) for x in op)
        if 'format' in self.oracles:
            # look at the files with the independent reader BEFORE any Darr handle touches them again (opening a
            # too-short data file read-write makes NumPy zero-extend it, which would hide the inconsistency)
            dec_now = self._decoded()
            if dec_now[0] == 'undecodable':
                V.append(viol('format', opdesc, pre, f'not decodable: {_cls(dec_now[1])}',
                              f'directory is not self-describing right after {opdesc} in state [{pre}] ({label}): {dec_now[1]}'))
                return StepResult(label, V, diverged=True)

        if kind == 'truncpath' and what == 'returns':
            # the by-path call used its own handle; the live one is allowed to be stale
            self.handles['a'] = a = darr.Array(self.path, accessmode=m.mode)

        if what != expect:
            V.append(viol('model', opdesc, pre, f'{label} (model: {expect})',
                          f'{opdesc} in state [{pre}] {label}; the NumPy model {expect}',
                          exception=jsonable(val) if what == 'raises' else None))
            return StepResult(label, V, diverged=True)

        if what == 'returns' or partial:
            if kind == 'mode':
                m.mode = op[1]
            m.arr = newarr
        if what == 'returns' and kind == 'iterappend' and op[1] == 'ctxAT':
            # No listed property says which length a truncation INSIDE a context that also appended must leave (the index is
            # normalised against the map opened before the appends). Only consistency is demanded here: whatever Darr left
            # must be a whole-row prefix of what was appended, and live handle, fresh handle and file reader must agree
            # (the checks below). The model follows the implementation for this one transition.
            full = np.concatenate([old_arr, cs[0][1], cs[1][1]]).astype(self.dtype)
            try:
                n_now = len(a)
            except Exception:  # noqa: BLE001
                n_now = -1
            if 0 <= n_now <= len(full):
                m.arr = full[:n_now]
        # what is visible now must be the model
        try:
            vis = self._visible()
        except Exception as e:  # noqa: BLE001
            V.append(viol('model', opdesc, pre, f'unreadable afterwards:{exc_class(e)}',
                          f'after {opdesc} in state [{pre}] the live handle cannot be read: {e!r}'))
            return StepResult(label, V, diverged=True)
        want = (m.arr.dtype.str, m.arr.shape, m.arr.tobytes())
        if vis != want:
            sym = 'state changed by rejected call' if what == 'raises' else 'contents differ from model'
            V.append(viol('model', opdesc, pre, sym,
                          f'after {opdesc} in state [{pre}] ({label}) the live handle shows '
                          f'{vis[0]} {vis[1]}, model has {want[0]} {want[1]} (or bytes differ)',
                          got=vis[2][:64].hex(), expected=want[2][:64].hex()))
            return StepResult(label, V, diverged=True)
        if what == 'raises' and mutating and not partial:
            if self._decoded() != dec0:
                V.append(viol('model', opdesc, pre, 'on-disk state changed by rejected call',
                              f'{opdesc} in state [{pre}] raised but changed what a file reader sees'))
                return StepResult(label, V, diverged=True)
        new_data = self._read_data()
        if (what == 'returns' or partial) and appendlike and not new_data.startswith(old_data):
            V.append(viol('model', opdesc, pre, 'append changed previously stored bytes',
                          f'{opdesc} in state [{pre}]: old file content is not a prefix of the new one'))
            return StepResult(label, V, diverged=True)
        if what == 'returns' and trunc_newlen is not None:
            rb = payload.prod(self.trail) * self.dtype.itemsize
            if new_data != old_data[:trunc_newlen * rb]:
                V.append(viol('model', opdesc, pre, 'truncate did not keep exactly the leading bytes',
                              f'{opdesc} in state [{pre}]: file is not the leading {trunc_newlen} rows'))
                return StepResult(label, V, diverged=True)
        return StepResult(label, V)

    def _read_data(self):
        try:
            with open(os.path.join(self.path, 'arrayvalues.bin'), 'rb') as f:
                return f.read()
        except FileNotFoundError:
            return b''

    # ------------------------------------------------------------------ feature steps
    META_VALS = {'a': {'fs': 20000, 'n': [1, 2]}, 'b': 'é x'}

    def _step_meta(self, op, pre):
        a, m = self.handles['a'], self.model
        _, action, key = op
        opdesc = '/'.join(op)
        newmeta = dict(m.meta)
        if action == 'set':
            call = lambda: a.metadata.update({key: self.META_VALS[key]})
            newmeta[key] = self.META_VALS[key]
            expect = 'returns'
        elif action == 'change':
            call = lambda: a.metadata.__setitem__(key, 'changed')
            newmeta[key] = 'changed'
            expect = 'returns'
        elif action == 'popitem':
            popped = []
            call = lambda: popped.append(a.metadata.popitem())
            expect = 'returns' if m.meta else 'raises'
        else:
            call = lambda: a.metadata.pop(key)
            expect = 'returns' if key in m.meta else 'raises'
            newmeta.pop(key, None)
        if m.mode == 'r':
            expect = 'raises'
        what, val = outcome_of(call)
        label = what if what == 'returns' else f'raises:{exc_class(val)}'
        if what != expect:
            # metadata semantics are C13's business; here a disagreement only prunes
            return StepResult(label, [viol('metamodel', opdesc, pre, label, 'metadata op disagrees with model')],
                              diverged=True)
        if what == 'returns' and action == 'popitem':
            newmeta.pop(popped[0][0], None)          # whichever item Darr chose
        if what == 'returns':
            m.meta = newmeta
        got = dict(a.metadata)
        if got != m.meta:
            return StepResult(label, [viol('metamodel', opdesc, pre, 'metadata differ', 'metadata differ from model')],
                              diverged=True)
        return StepResult(label)

    def _step_recreate(self, op, pre):
        darr, m = self.darr, self.model
        which = op[1]
        opdesc = '/'.join(op)
        if which == 'other':
            odt = np.dtype('<i2') if self.dtype.kind != 'i' or self.dtype.itemsize != 2 else np.dtype('>f4')
            ref = payload.values('H', 2, (3,), odt)
            meta = None
        elif which == 'meta':
            ref = payload.values('H', 1, self.trail, self.dtype)
            meta = {'a': 'recreated'}
        elif which == 'strided':       # a 2-D+ source that is neither C- nor F-contiguous
            big = payload.values('H', 2, (4,), self.dtype)      # fixed shape: the graph must stay finite
            src = big[:, ::2]
            ref = np.ascontiguousarray(src)
            meta = None
        elif which == 'reject':        # unsupported element type: refused, the array that is there stays as it is
            src = np.array([True, False])
            ref = None
            meta = None
        elif which == 'genmix':        # iterator whose later chunks have another item size: cast to the first chunk's dtype
            first = payload.values('H', 1, self.trail, self.dtype)
            wide = np.dtype('<f8') if self.dtype.itemsize != 8 else np.dtype('<f4')
            later = payload.values('G', 2, self.trail, self.dtype).astype(wide)
            ref = np.concatenate([first, later.astype(self.dtype)]).astype(self.dtype)
            meta = None
            src = iter([first, later])
        else:
            ref = np.zeros((0,) + self.trail, dtype=self.dtype)
            meta = None
        arg = src if which in ('genmix', 'strided', 'reject') else ref
        if which == 'reject':
            vis0, dec0 = self._visible(), self._decoded()
        what, val = outcome_of(lambda: darr.asarray(self.path, arg, metadata=meta, accessmode=m.mode,
                                                    overwrite=True))
        label = what if what == 'returns' else f'raises:{exc_class(val)}'
        if which == 'reject':
            V = []
            if what == 'returns' or not isinstance(val, TypeError):
                V.append(viol('create', opdesc, pre, f'{label} (expected TypeError)', f'asarray(bool data, overwrite=True) {label}'))
            dec1 = self._decoded()
            if dec1 != dec0:
                V.append(viol('format', opdesc, pre, 'refused re-creation changed the array on disk',
                              f'asarray(unsupported type, overwrite=True) was refused ({label}) but a file reader now sees '
                              f'{dec1[:2]} instead of {dec0[:2]}'))
            elif outcome_of(self._visible)[1] != vis0:
                V.append(viol('model', opdesc, pre, 'refused re-creation changed the visible state', label))
            return StepResult(label, V, diverged=bool(V))
        if what != 'returns':
            V = [viol('create', opdesc, pre, label, f'asarray(overwrite=True) {label}')]
            if 'format' in self.oracles:      # whatever the failed call left behind must still be a self-describing array
                V += self._format_vs_api(self.path, opdesc, 'after a failed re-creation')
            return StepResult(label, V, diverged=True)
        self.handles['a'] = val
        m.arr = ref
        m.meta = dict(meta or {})
        if which == 'other':
            # the configuration's dtype/trail no longer describe this array: do not grow it further
            pass
        got = val[:]
        if not payload.same_bits(got, ref):
            return StepResult(label, [viol('create', opdesc, pre, 'recreated contents differ',
                                           'asarray(overwrite=True) contents differ from input')], diverged=True)
        return StepResult(label)

    def _step_copy(self, op, pre):
        """copy() is a side state: check the copy's README / format, then drop it."""
        a, m = self.handles['a'], self.model
        cpath = os.path.join(self.root, 'copy.darr')
        V = []
        what, val = outcome_of(lambda: a.copy(cpath, accessmode='r+'))
        label = what if what == 'returns' else f'raises:{exc_class(val)}'
        if what == 'returns':
            V += self._check_dir(cpath, m.arr, m.meta, 'copycheck', pre)
        snapshot._rmtree(cpath)
        # a failing copy is C15's business; here it is only recorded as an outcome
        return StepResult(label, V)

    # ------------------------------------------------------------------ invariants
    def invariant(self):
        V = []
        m = self.model
        pre = self.abstract() + ',' + m.mode
        a = self.handles['a']
        want = (m.arr.dtype.str, m.arr.shape, m.arr.tobytes())
        if 'model' in self.oracles:
            def obs(h):
                return {'len': len(h), 'shape': tuple(h.shape), 'size': h.size, 'nbytes': h.nbytes,
                        'dtype': h.dtype.str, 'bytes': h[:].tobytes()}
            wanted = {'len': len(m.arr), 'shape': m.arr.shape, 'size': int(m.arr.size),
                      'nbytes': int(m.arr.nbytes), 'dtype': m.arr.dtype.str, 'bytes': m.arr.tobytes()}
            for name, mk in (('live', lambda: a), ('fresh', lambda: self.darr.Array(self.path))):
                what, val = outcome_of(lambda: obs(mk()))
                if what == 'raises':
                    V.append(viol('model', 'observe', pre, f'{name} handle raises:{exc_class(val)}',
                                  f'{name} handle cannot be observed in state [{pre}]: {val!r}'))
                    continue
                bad = [k for k in wanted if val[k] != wanted[k]]
                if bad:
                    V.append(viol('model', 'observe', pre, f'{name} handle differs from model in {bad}',
                                  f'{name} handle reports {[(k, val[k]) for k in bad if k != "bytes"]}, '
                                  f'model {[(k, wanted[k]) for k in bad if k != "bytes"]}'))
            leaks = snapshot.open_handles_on(self.root)
            if leaks:
                V.append(viol('model', 'observe', pre, 'descriptor or map left open',
                              f'open handles between operations: {leaks[:3]}'))
        V += self._check_dir(self.path, m.arr, m.meta, 'state', pre)
        return V

    def _check_dir(self, path, arr, meta, op, pre):
        V = []
        if 'format' in self.oracles:
            try:
                dec, d = decoder.decode_array(path)
                if 'darrobject' not in d:
                    raise decoder.FormatError('darrobject missing')
                if not payload.same_bits(dec, arr):
                    V.append(viol('format', op, pre, 'decoded array differs from API/model',
                                  f'independent reader gets {dec.dtype.str} {dec.shape}, API/model has '
                                  f'{arr.dtype.str} {arr.shape} (or bytes differ)'))
                fresh = self.darr.Array(path)
                if not payload.same_bits(dec, fresh[:]) or fresh.dtype.str != dec.dtype.str:
                    V.append(viol('format', op, pre, 'decoded array differs from what Darr reports',
                                  f'independent reader gets {dec.dtype.str} {dec.shape}, Darr reports '
                                  f'{fresh.dtype.str} {fresh.shape} (or bytes differ)'))
            except decoder.FormatError as e:
                V.append(viol('format', op, pre, f'not decodable: {_cls(str(e))}',
                              f'directory is not self-describing in state [{pre}]: {e}'))
        if 'readme' in self.oracles:
            V += check_readme_array(self.darr, path, op, pre, arr, meta)
        return V


def _cls(msg):
    """Strip numbers from a decoder message so that it can serve as a signature."""
    import re
    return re.sub(r'\d+', 'N', msg)[:80]


def check_readme_array(darr, path, op, pre, arr=None, meta=None):
    """README.txt == text Darr generates from a fresh handle on the current directory,
    plus wording-tolerant semantic checks of labelled lines against independent facts."""
    from darr.array import readcodetxt
    V = []
    rp = os.path.join(path, 'README.txt')
    if not os.path.isfile(rp):
        return [viol('readme', op, pre, 'README.txt missing', f'README.txt missing in state [{pre}]')]
    with open(rp, 'rb') as f:
        raw = f.read()
    try:
        fresh = darr.Array(path)
        want = readcodetxt(fresh).encode('utf-8')
    except Exception as e:  # noqa: BLE001
        return [viol('readme', op, pre, f'cannot regenerate:{exc_class(e)}',
                     f'README cannot be regenerated from a fresh handle: {e!r}')]
    if raw != want:
        V.append(viol('readme', op, pre, 'README differs from regenerated text',
                      f'README.txt is not the documentation Darr generates for the current state '
                      f'(first difference at byte {_firstdiff(raw, want)})'))
    text = raw.decode('utf-8', 'replace')
    try:
        dec, d = decoder.decode_array(path, require_readme=False)
    except decoder.FormatError:
        return V
    V += readme_semantics(text, dec, d, os.path.exists(os.path.join(path, 'metadata.json')), op, pre)
    # every snippet is the current readcode() output
    for lang in fresh.readcodelanguages:
        code = fresh.readcode(lang)
        if code is not None and code not in text:
            V.append(viol('readme', op, pre, f'snippet for {lang} is not the current readcode()',
                          f'README lacks the current readcode({lang!r}) output'))
    return V


def readme_semantics(text, dec, d, has_meta, op, pre):
    import re
    V = []
    m = re.search(r'Numeric type:\s*(.+)', text)
    if m:
        # "8-bit signed integer", "64-bit IEEE double precision float", ...
        line = m.group(1)
        bits = re.match(r'\s*(\d+)', line)
        kind = dec.dtype.kind
        ok = bits and int(bits.group(1)) == dec.dtype.itemsize * 8
        if ok:
            if kind == 'i':
                ok = 'signed integer' in line and 'unsigned' not in line
            elif kind == 'u':
                ok = 'unsigned integer' in line
            elif kind == 'f':
                ok = 'float' in line and 'complex' not in line
            elif kind == 'c':
                ok = 'complex' in line
        if not ok:
            V.append(viol('readme', op, pre, 'stated numeric type is not that of the data',
                          f'README says "{line.strip()}", data are {d["numtype"]}'))
    m = re.search(r'Byte order:\s*(\w+)', text)
    if m and m.group(1) != d['byteorder']:
        V.append(viol('readme', op, pre, 'stated byte order is not that of the data',
                      f'README says {m.group(1)}, descriptor says {d["byteorder"]}'))
    m = re.search(r'Array length:\s*(\d+)', text)
    if m and (dec.ndim != 1 or int(m.group(1)) != dec.shape[0]):
        V.append(viol('readme', op, pre, 'stated length is not that of the data',
                      f'README says length {m.group(1)}, data have shape {dec.shape}'))
    m = re.search(r'Array dimensions:\s*\(([^)]*)\)', text)
    if m:
        dims = tuple(int(x) for x in re.findall(r'\d+', m.group(1)))
        if dims != dec.shape:
            V.append(viol('readme', op, pre, 'stated dimensions are not those of the data',
                          f'README says {dims}, data have shape {dec.shape}'))
    mentions = 'metadata.json' in text
    if mentions != has_meta:
        V.append(viol('readme', op, pre, 'metadata.json mention does not match existence',
                      f'README mentions metadata.json: {mentions}; file exists: {has_meta}'))
    return V


def _firstdiff(a, b):
    n = min(len(a), len(b))
    for i in range(n):
        if a[i] != b[i]:
            return i
    return n

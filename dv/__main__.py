"""CLI:  python -m dv check C03 [--tier quick|thorough] | replay <file> | selftest | setup"""
import argparse
import importlib
import json
import os
import sys
import traceback

from . import common
from .report import HarnessError


def _reexec_if_needed():
    if os.environ.get('PYTHONHASHSEED') != '0':
        os.environ['PYTHONHASHSEED'] = '0'
        os.environ.setdefault('PYTHONDONTWRITEBYTECODE', '1')
        os.execv(sys.executable, [sys.executable, '-m', 'dv'] + sys.argv[1:])


def load_check(pid):
    return importlib.import_module(f'dv.checks.{pid.lower()}')


def main(argv=None):
    _reexec_if_needed()
    ap = argparse.ArgumentParser(prog='run')
    sub = ap.add_subparsers(dest='cmd', required=True)
    c = sub.add_parser('check')
    c.add_argument('prop')
    c.add_argument('--tier', default=None, choices=['quick', 'thorough'])
    r = sub.add_parser('replay')
    r.add_argument('path')
    sub.add_parser('selftest')
    sub.add_parser('setup')
    args = ap.parse_args(argv)
    try:
        if args.cmd == 'check':
            tier = args.tier or common.tier_from_env()
            common.import_darr()
            mod = load_check(args.prop)
            return int(mod.run(tier) or 0)
        if args.cmd == 'replay':
            with open(args.path) as f:
                rec = json.load(f)
            common.import_darr()
            mod = load_check(rec['property'])
            return int(mod.replay(rec) or 0)
        if args.cmd in ('selftest', 'setup'):
            from . import selftest
            return int(selftest.main(full=(args.cmd == 'selftest')) or 0)
    except HarnessError as e:
        print(f'HARNESS ERROR: {e}', file=sys.stderr)
        return 2
    except SystemExit:
        raise
    except BaseException:  # noqa: BLE001
        traceback.print_exc()
        print('HARNESS ERROR: unexpected exception in the verification machinery', file=sys.stderr)
        return 2


if __name__ == '__main__':
    sys.exit(main())

"""Byte-exact snapshots of directory trees (lstat level) and their restoration."""
import os
import stat

from .common import sha


def snap(path):
    """Return {relative path: entry} for everything at/below path.

    entry is ('f', bytes), ('d',), ('l', target) ; the root itself is '.'; a
    missing root gives {}.  Symlinks are recorded, never followed."""
    out = {}
    try:
        st = os.lstat(path)
    except FileNotFoundError:
        return out
    if stat.S_ISLNK(st.st_mode):
        out['.'] = ('l', os.readlink(path))
        return out
    if not stat.S_ISDIR(st.st_mode):
        with open(path, 'rb') as f:
            out['.'] = ('f', f.read())
        return out
    out['.'] = ('d',)
    stack = ['']
    while stack:
        rel = stack.pop()
        full = os.path.join(path, rel) if rel else path
        with os.scandir(full) as it:
            for e in it:
                r = os.path.join(rel, e.name) if rel else e.name
                if e.is_symlink():
                    out[r] = ('l', os.readlink(e.path))
                elif e.is_dir(follow_symlinks=False):
                    out[r] = ('d',)
                    stack.append(r)
                else:
                    with open(e.path, 'rb') as f:
                        out[r] = ('f', f.read())
    return out


def files(path):
    """Shorthand: {relpath: bytes} of regular files only."""
    return {k: v[1] for k, v in snap(path).items() if v[0] == 'f'}


def restore(path, snapshot):
    """Make the tree at path equal to snapshot (which was taken at the same path)."""
    cur = snap(path)
    if cur == snapshot:
        return
    # remove what should not be there (deepest first)
    for rel in sorted(cur, key=lambda r: -r.count(os.sep) - (r != '.')):
        if rel not in snapshot or snapshot[rel][0] != cur[rel][0] or \
                (cur[rel][0] == 'l' and snapshot[rel] != cur[rel]):
            full = path if rel == '.' else os.path.join(path, rel)
            if cur[rel][0] == 'd':
                _rmtree(full)
            elif os.path.lexists(full):
                os.unlink(full)
    for rel in sorted(snapshot, key=lambda r: (r != '.', r.count(os.sep), r)):
        ent = snapshot[rel]
        full = path if rel == '.' else os.path.join(path, rel)
        if ent[0] == 'd':
            if not os.path.isdir(full):
                os.makedirs(full)
        elif ent[0] == 'l':
            if not os.path.islink(full):
                os.symlink(ent[1], full)
        else:
            if cur.get(rel) != ent or not os.path.exists(full):
                with open(full, 'wb') as f:
                    f.write(ent[1])


def _rmtree(p):
    import shutil
    shutil.rmtree(p, ignore_errors=True)


def digest(snapshot):
    parts = []
    for rel in sorted(snapshot):
        ent = snapshot[rel]
        parts.append(rel)
        parts.append(ent[0])
        if len(ent) > 1:
            parts.append(ent[1])
    return sha(*parts)


def diff(a, b):
    """Human-readable list of differences between two snapshots."""
    out = []
    for rel in sorted(set(a) | set(b)):
        if rel not in a:
            out.append(f'+ {rel} {b[rel][0]}')
        elif rel not in b:
            out.append(f'- {rel} {a[rel][0]}')
        elif a[rel] != b[rel]:
            if a[rel][0] == 'f' and b[rel][0] == 'f':
                out.append(f'~ {rel} {len(a[rel][1])}B -> {len(b[rel][1])}B')
            else:
                out.append(f'~ {rel} {a[rel][0]} -> {b[rel][0]}')
    return out


def open_handles_on(prefix):
    """File descriptors and memory maps of this process that name a path below prefix."""
    found = []
    prefix = os.path.realpath(prefix)
    try:
        for fd in os.listdir('/proc/self/fd'):
            try:
                t = os.readlink(f'/proc/self/fd/{fd}')
            except OSError:
                continue
            if t.startswith(prefix):
                found.append(('fd', t))
        with open('/proc/self/maps') as f:
            for line in f:
                parts = line.split(None, 5)
                if len(parts) == 6 and parts[5].strip().startswith(prefix):
                    found.append(('map', parts[5].strip()))
    except FileNotFoundError:
        pass
    return found

"""A toy System for testing the explorer: a counter persisted in a file, with an
optional planted bug (decrement from N wraps incorrectly) that needs a 3-step history."""
import os

from .common import fresh_dir, sha
from .engines.opgraph import StepResult, System


class _Obj:
    __module__ = 'darr.toy'

    def __init__(self, path):
        self.path = path
        self.cache = 0


_Obj.__module__ = 'darr.toy'


class ToySys(System):
    def __init__(self, cfg):
        self.cfg = cfg
        self.root = 'g'

    def build(self):
        os.makedirs(self.root, exist_ok=True)
        self.f = os.path.join(self.root, 'n')
        with open(self.f, 'w') as fh:
            fh.write('0')
        self.handles = {'o': _Obj(self.f)}
        self.model = 0
        return []

    def copy_model(self):
        return self.model

    def set_model(self, m):
        self.model = m

    def model_canon(self):
        return sha(str(self.model))

    def enabled(self):
        ops, dis = [('dec',)], 0
        if self.model < self.cfg['N']:
            ops.append(('inc',))
        else:
            dis += 1
        return ops, dis

    def step(self, op):
        o = self.handles['o']
        n = int(open(self.f).read())
        if op[0] == 'inc':
            n += 1
            self.model += 1
        else:
            if self.cfg['bug'] and n == self.cfg['N']:
                n -= 2
            else:
                n = max(0, n - 1)
            self.model = max(0, self.model - 1)
        with open(self.f, 'w') as fh:
            fh.write(str(n))
        o.cache = n
        if n != self.model:
            return StepResult('returns', [({'oracle': 'toy', 'op': op[0]}, 'toy diverged', {})], diverged=True)
        return StepResult('returns')

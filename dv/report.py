"""Violations, replay artefacts, known findings and evidence files."""
import json
import os
import subprocess
import sys

from .common import VERIF, Timer, jdump, jsonable, seed, sha

KNOWN = os.path.join(VERIF, 'known_findings.json')
# Detection demonstrations against a scratch copy (DV_REPO) must not overwrite the evidence and
# replays of the registered checks: DV_OUT redirects both.
OUT = os.environ.get('DV_OUT') or VERIF
EVID_SCHEMA = '/root/.vp/EVIDENCE.schema.json'

LEVEL_KEYS = {
    'model_checking': ('states', 'transitions', 'traces_validated_against_impl', 'samples'),
    'exploration': ('evaluations', 'distinct_nontrivial', 'rule', 'samples'),
    'fault_enumeration': ('evaluations', 'distinct_nontrivial', 'rule', 'samples'),
}


def load_known():
    try:
        with open(KNOWN) as f:
            return json.load(f).get('findings', [])
    except FileNotFoundError:
        return []


def sig_matches(entry_sig, sig):
    """Every key of the recorded signature must be present and equal."""
    return all(k in sig and jdump(sig[k]) == jdump(v) for k, v in entry_sig.items())


class HarnessError(Exception):
    """The machinery could not do its job (vacuous run, broken environment)."""


class Reporter:
    MAX_REPLAYS_PER_SIG = 2
    MAX_LINES = 12

    def __init__(self, prop, tier, engine):
        self.prop, self.tier, self.engine = prop, tier, engine
        self.timer = Timer()
        self.known = [k for k in load_known()
                      if k.get('property') == prop and k.get('status') == 'open']
        self.by_sig = {}        # sig digest -> [sig, what, count, [replay paths]]
        self.known_hits = {}    # index in self.known -> count
        self.n_viol = 0

    # -- recording ---------------------------------------------------------
    def violation(self, signature, what, replay):
        """signature: small dict classifying the failure (stable across runs);
        what: one line; replay: JSON-able dict sufficient to re-execute."""
        for i, k in enumerate(self.known):
            if sig_matches(k.get('signature', {}), signature):
                self.known_hits[i] = self.known_hits.get(i, 0) + 1
                return 'known'
        self.n_viol += 1
        d = sha(jdump(signature))[:12]
        ent = self.by_sig.setdefault(d, [signature, what, 0, []])
        ent[2] += 1
        if len(ent[3]) < self.MAX_REPLAYS_PER_SIG:
            rec = dict(replay)
            rec.update(property=self.prop, engine=self.engine, tier=self.tier,
                       seed=seed(), signature=signature, what=what)
            rd = sha(jdump(rec))[:10]
            os.makedirs(os.path.join(OUT, 'replays'), exist_ok=True)
            path = os.path.join(OUT, 'replays', f'{self.prop}-{rd}.json')
            with open(path, 'w') as f:
                json.dump(rec, f, indent=1, sort_keys=True, default=jsonable)
            ent[3].append(path)
        return 'new'

    def merge(self, records):
        """records: list of (signature, what, replay) produced in worker processes."""
        for s, w, r in records:
            self.violation(s, w, r)

    # -- finishing ---------------------------------------------------------
    def finish(self, level, coverage, assumptions=(), extra=None):
        for i, n in sorted(self.known_hits.items()):
            k = self.known[i]
            print(f"KNOWN-FINDING: property={self.prop} {k.get('what', '')} "
                  f"[{n} occurrence(s) in this run]")
        lines = 0
        for d, (sig, what, count, paths) in sorted(self.by_sig.items(), key=lambda kv: kv[1][3]):
            for p in paths:
                if lines < self.MAX_LINES:
                    print(f'VIOLATION property={self.prop} replay={p}')
                    lines += 1
            if lines <= self.MAX_LINES:
                print(f'  -> {what}  [x{count}] signature={jdump(sig)}')
        ev = {
            'property_id': self.prop, 'tier': self.tier, 'seed': seed(), 'level': level,
            'coverage': coverage, 'assumptions': list(assumptions),
            'wall_s': self.timer(), 'violations': self.n_viol,
            'known_findings_seen': sum(self.known_hits.values()),
            'engine': self.engine,
        }
        if extra:
            ev.update(extra)
        write_evidence(self.prop, ev)
        cov = {k: v for k, v in coverage.items() if isinstance(v, (int, float, bool, str))
               and k not in ('rule', 'explanation')}
        print(f'{self.prop} [{self.tier}] {self.engine}: violations={self.n_viol} '
              f'known={sum(self.known_hits.values())} wall={ev["wall_s"]}s coverage={jdump(cov)}')
        return 1 if self.n_viol else 0


def write_evidence(prop, ev):
    os.makedirs(os.path.join(OUT, 'evidence'), exist_ok=True)
    path = os.path.join(OUT, 'evidence', f'{prop}.json')
    problems = check_evidence(ev)
    if problems:
        raise HarnessError(f'evidence for {prop} would be invalid: {problems}')
    tmp = path + '.tmp'
    with open(tmp, 'w') as f:
        json.dump(ev, f, indent=1, sort_keys=True, default=jsonable)
    os.replace(tmp, path)
    return path


def check_evidence(ev):
    """Structural check mirroring EVIDENCE.schema.json (jsonschema is not in /venv;
    `./run selftest` additionally validates with python3-vt's jsonschema)."""
    bad = []
    for k in ('property_id', 'tier', 'seed', 'level', 'coverage', 'wall_s'):
        if k not in ev:
            bad.append(f'missing {k}')
    if bad:
        return bad
    cov = ev['coverage']
    if ev['tier'] not in ('quick', 'thorough'):
        bad.append('tier')
    if not isinstance(ev['seed'], int):
        bad.append('seed')
    lvl = ev['level']
    if lvl not in LEVEL_KEYS:
        bad.append(f'level {lvl}')
        return bad
    for k in LEVEL_KEYS[lvl]:
        if k not in cov:
            bad.append(f'coverage.{k} missing')
    if lvl == 'model_checking':
        if cov.get('states', 0) < 1 or cov.get('transitions', 0) < 1:
            bad.append('states/transitions < 1')
    else:
        if cov.get('evaluations', 0) < 1:
            bad.append('evaluations < 1')
        if cov.get('distinct_nontrivial', 0) < 2:
            bad.append('distinct_nontrivial < 2')
    if not isinstance(cov.get('samples'), list) or not cov['samples']:
        bad.append('samples empty')
    return bad


def validate_with_jsonschema(path):
    """Used by selftest: validate a written evidence file with the real schema."""
    code = ("import json,sys,jsonschema;"
            "jsonschema.validate(json.load(open(sys.argv[1])), json.load(open(sys.argv[2])))")
    r = subprocess.run(['python3-vt', '-c', code, path, EVID_SCHEMA],
                       capture_output=True, text=True)
    return r.returncode == 0, r.stderr[-500:]

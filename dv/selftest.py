"""Tests of the machinery itself.  `./run setup` runs the fast subset, `./run selftest` all."""
import glob
import json
import os
import sys

import numpy as np

from . import decoder, payload, snapshot
from .common import VERIF, fresh_dir, import_darr, rmtree
from .report import validate_with_jsonschema


def t_compile():
    for p in glob.glob(os.path.join(VERIF, 'dv', '**', '*.py'), recursive=True):
        with open(p, 'rb') as f:
            compile(f.read(), p, 'exec')


def t_decoder_against_tofile():
    """The decoder reads what ndarray.tofile wrote, for every (type, byte order) pair."""
    d = fresh_dir('dec')
    try:
        for dts in payload.ALL_DTYPES:
            dt = np.dtype(dts)
            for shape in ((5,), (2, 3), (2, 1, 3), (0, 2)):
                ref = payload.values('A', shape[0], shape[1:], dt)
                p = os.path.join(d, f'a-{dts.strip("<>|")}-{len(shape)}-{dt.byteorder == ">"}')
                os.makedirs(p, exist_ok=True)
                ref.tofile(os.path.join(p, 'arrayvalues.bin'))
                bo = 'big' if dts[0] == '>' else 'little'
                with open(os.path.join(p, 'arraydescription.json'), 'w') as f:
                    json.dump({'numtype': dt.name, 'byteorder': bo, 'shape': list(shape),
                               'arrayorder': 'C', 'darrversion': '0', 'darrobject': 'Array'}, f)
                open(os.path.join(p, 'README.txt'), 'w').close()
                got, _ = decoder.decode_array(p)
                assert payload.same_bits(got, ref) or (dt.itemsize == 1 and got.tobytes() == ref.tobytes()), (dts, shape)
        # negative: size mismatch, bad fields
        with open(os.path.join(p, 'arrayvalues.bin'), 'ab') as f:
            f.write(b'\0')
        ok, why = decoder.is_valid_array_dir(p)
        assert not ok
    finally:
        rmtree(d)


def t_decoder_against_examples():
    """The repository's examplearrays/ are readable by the independent decoder."""
    base = os.path.join(os.environ.get('DV_REPO', '/repo'), 'examplearrays')
    n = 0
    for p in sorted(glob.glob(os.path.join(base, 'arrays', '*'))):
        if os.path.isfile(os.path.join(p, 'arraydescription.json')):
            decoder.decode_array(p, require_darrobject=False)
            n += 1
    for p in sorted(glob.glob(os.path.join(base, 'raggedarrays', '*'))):
        if os.path.isfile(os.path.join(p, 'arraydescription.json')):
            decoder.decode_array(os.path.join(p, 'values'), require_darrobject=False)
            n += 1
    assert n >= 10, n


def t_snapshot_roundtrip():
    d = fresh_dir('snap')
    try:
        os.makedirs(os.path.join(d, 'x', 'sub'))
        open(os.path.join(d, 'x', 'f'), 'wb').write(b'abc')
        open(os.path.join(d, 'x', 'sub', 'g'), 'wb').write(b'')
        os.symlink('nowhere', os.path.join(d, 'x', 'l'))
        s = snapshot.snap(os.path.join(d, 'x'))
        open(os.path.join(d, 'x', 'f'), 'wb').write(b'changed')
        os.unlink(os.path.join(d, 'x', 'l'))
        os.makedirs(os.path.join(d, 'x', 'new'))
        open(os.path.join(d, 'x', 'new', 'h'), 'wb').write(b'1')
        assert snapshot.snap(os.path.join(d, 'x')) != s
        snapshot.restore(os.path.join(d, 'x'), s)
        assert snapshot.snap(os.path.join(d, 'x')) == s
    finally:
        rmtree(d)


def t_evidence_files_validate():
    for p in sorted(glob.glob(os.path.join(VERIF, 'evidence', 'C*.json'))):
        ok, err = validate_with_jsonschema(p)
        assert ok, (p, err)


def t_explorer_on_toy():
    """The explorer finds a planted history-dependent bug in a toy system and closes the graph."""
    from .engines import opgraph
    from .selftest_toy import ToySys
    r = opgraph.explore(ToySys, {'bug': False, 'N': 3}, validate_every=1)
    assert r.closed and not r.violations and r.states == 4, r.summary()
    r = opgraph.explore(ToySys, {'bug': True, 'N': 3}, validate_every=1)
    assert r.violations, 'planted bug not found'


FAST = [t_compile, t_decoder_against_tofile, t_snapshot_roundtrip]
FULL = FAST + [t_decoder_against_examples, t_evidence_files_validate, t_explorer_on_toy]


def main(full=False):
    import_darr()
    failed = 0
    extra = []
    if full:
        try:
            from .langs import selftest as ls
            extra = ls.TESTS
        except ImportError:
            extra = []
    for t in (FULL + extra if full else FAST):
        try:
            t()
            print(f'ok   {t.__name__}')
        except Exception as e:  # noqa: BLE001
            failed += 1
            import traceback
            traceback.print_exc()
            print(f'FAIL {t.__name__}: {e!r}')
    print('selftest:', 'FAILED' if failed else 'passed')
    return 1 if failed else 0

"""Independent reader of the documented Darr on-disk format.

Uses nothing from Darr: only docs/design.rst / the README text.  raw values in
C order in 'arrayvalues.bin'; 'arraydescription.json' is a JSON dictionary with
numtype, byteorder, shape, arrayorder, darrversion, darrobject.
"""
import json
import os

import numpy as np

# own table: (numtype) -> (kind letter, itemsize)
NUMTYPES = {
    'int8': ('i', 1), 'int16': ('i', 2), 'int32': ('i', 4), 'int64': ('i', 8),
    'uint8': ('u', 1), 'uint16': ('u', 2), 'uint32': ('u', 4), 'uint64': ('u', 8),
    'float16': ('f', 2), 'float32': ('f', 4), 'float64': ('f', 8),
    'complex64': ('c', 8), 'complex128': ('c', 16),
}
BYTEORDERS = {'little': '<', 'big': '>'}
REQUIRED = ('numtype', 'byteorder', 'shape', 'arrayorder', 'darrversion')
INDEXTYPES = ('int8', 'uint8', 'int16', 'uint16', 'int32', 'uint32', 'int64')


class FormatError(Exception):
    pass


def dtype_of(numtype, byteorder):
    if not isinstance(numtype, str) or numtype not in NUMTYPES:
        raise FormatError(f'unknown numtype {numtype!r}')
    if not isinstance(byteorder, str) or byteorder not in BYTEORDERS:
        raise FormatError(f'unknown byteorder {byteorder!r}')
    kind, size = NUMTYPES[numtype]
    return np.dtype(f'{BYTEORDERS[byteorder]}{kind}{size}')


def norm_dtype_str(dt):
    """dtype.str with '=' / '|' normalised, so '<i2' stays '<i2' and 'u1' is '|u1'."""
    dt = np.dtype(dt)
    return dt.str


def read_descr(dirpath, require_darrobject=None, filename='arraydescription.json'):
    p = os.path.join(dirpath, filename)
    if not os.path.isfile(p):
        raise FormatError(f'{filename} missing')
    try:
        with open(p, 'r', encoding='utf-8') as f:
            d = json.load(f)
    except (ValueError, UnicodeDecodeError) as e:
        raise FormatError(f'{filename} is not JSON: {e}')
    if not isinstance(d, dict):
        raise FormatError(f'{filename} is not a JSON dictionary')
    return d


def check_shape(shape):
    if not isinstance(shape, list):
        raise FormatError(f'shape {shape!r} is not a sequence')
    for s in shape:
        if isinstance(s, bool) or not isinstance(s, int) or s < 0:
            raise FormatError(f'shape {shape!r} is not a sequence of non-negative ints')
    return tuple(shape)


def decode_array(dirpath, require_darrobject=True, require_readme=True):
    """Return (ndarray, descriptor dict).  Raises FormatError when the directory
    is not a well-formed array in the documented format."""
    d = read_descr(dirpath)
    for k in REQUIRED:
        if k not in d:
            raise FormatError(f'required key {k!r} missing')
    if require_darrobject:
        if d.get('darrobject') != 'Array':
            raise FormatError(f"darrobject is {d.get('darrobject')!r}, not 'Array'")
    if not isinstance(d['darrversion'], str):
        raise FormatError('darrversion is not a string')
    dt = dtype_of(d['numtype'], d['byteorder'])
    shape = check_shape(d['shape'])
    if d['arrayorder'] not in ('C', 'F'):
        raise FormatError(f"arrayorder {d['arrayorder']!r} unknown")
    vp = os.path.join(dirpath, 'arrayvalues.bin')
    if not os.path.isfile(vp):
        raise FormatError('arrayvalues.bin missing')
    n = 1
    for s in shape:
        n *= s
    size = os.stat(vp).st_size
    if size != n * dt.itemsize:
        raise FormatError(f'arrayvalues.bin has {size} bytes, descriptor implies {n * dt.itemsize}')
    if require_readme and not os.path.isfile(os.path.join(dirpath, 'README.txt')):
        raise FormatError('README.txt missing')
    with open(vp, 'rb') as f:
        raw = f.read()
    a = np.frombuffer(raw, dtype=dt).reshape(shape, order=d['arrayorder'])
    return a, d


def decode_ragged(dirpath, require_readme=True):
    """Return (list of subarrays, values ndarray, indices ndarray, top descriptor)."""
    top = read_descr(dirpath)
    v, vd = decode_array(os.path.join(dirpath, 'values'), require_readme=require_readme)
    i, idesc = decode_array(os.path.join(dirpath, 'indices'), require_readme=require_readme)
    if i.ndim != 2 or i.shape[1] != 2:
        raise FormatError(f'indices has shape {i.shape}, not (n, 2)')
    if idesc['numtype'] not in NUMTYPES or NUMTYPES[idesc['numtype']][0] not in 'iu':
        raise FormatError(f"indices numtype {idesc['numtype']} is not an integer type")
    if v.ndim < 1:
        raise FormatError('values has no first axis')
    n, N = i.shape[0], v.shape[0]
    ii = i.astype(object)  # exact python ints, no overflow games
    prev_end = 0
    for k in range(n):
        s, e = int(ii[k, 0]), int(ii[k, 1])
        if k == 0 and s != 0:
            raise FormatError(f'indices[0,0] = {s}, not 0')
        if s != prev_end:
            raise FormatError(f'indices row {k} starts at {s}, previous row ended at {prev_end}')
        if s > e:
            raise FormatError(f'indices row {k}: start {s} > end {e}')
        prev_end = e
    if prev_end != N:
        raise FormatError(f'last end index {prev_end} != number of value rows {N}')
    if require_readme and not os.path.isfile(os.path.join(dirpath, 'README.txt')):
        raise FormatError('README.txt missing')
    # top-level descriptor
    for k in ('len', 'size', 'atom', 'numtype', 'darrobject', 'darrversion'):
        if k not in top:
            raise FormatError(f'top-level key {k!r} missing')
    if top['darrobject'] != 'RaggedArray':
        raise FormatError(f"top-level darrobject {top['darrobject']!r}")
    if top['len'] != n:
        raise FormatError(f"top-level len {top['len']} != {n} index rows")
    if top['size'] != int(v.size):
        raise FormatError(f"top-level size {top['size']} != {int(v.size)} stored values")
    if list(top['atom']) != list(v.shape[1:]):
        raise FormatError(f"top-level atom {top['atom']} != {list(v.shape[1:])}")
    if top['numtype'] != vd['numtype']:
        raise FormatError(f"top-level numtype {top['numtype']} != values numtype {vd['numtype']}")
    subs = [v[int(ii[k, 0]):int(ii[k, 1])] for k in range(n)]
    return subs, v, i, top


def is_valid_array_dir(dirpath):
    """Differential oracle for C18: does an independent reader accept the directory?
    (README and darrobject are not needed for that question.)"""
    try:
        decode_array(dirpath, require_darrobject=False, require_readme=False)
        return True, ''
    except FormatError as e:
        return False, str(e)

"""E1 system for RaggedArray: real darr.RaggedArray handle + list-of-ndarrays model.

Oracle tags: 'model' (C04), 'format' (C05), 'readme' (C08), 'mode' (read-only enforcement; C11's business,
here it only prunes).
"""
import json
import os
import re

import numpy as np

from . import decoder, payload, snapshot
from .common import import_darr, outcome_of, exc_class, sha, jsonable
from .engines.opgraph import StepResult, System
from .sys_array import viol, check_readme_array, _firstdiff, _cls

TRUNC_KS = [0, 1, -1, 'len', 'len+1', 1.0, '-len-1', '-len']


class RaggedModel:
    def __init__(self, subs, dtype, atom, mode, meta=None):
        self.subs = list(subs)
        self.dtype = np.dtype(dtype)
        self.atom = tuple(atom)
        self.mode = mode
        self.meta = dict(meta or {})

    def copy(self):
        return RaggedModel([s.copy() for s in self.subs], self.dtype, self.atom, self.mode,
                           json.loads(json.dumps(self.meta)))

    def canon(self):
        return sha(self.dtype.str, repr(self.atom), self.mode, json.dumps(self.meta, sort_keys=True),
                   *[repr(s.shape) + s.tobytes().hex() for s in self.subs])


class RaggedSys(System):
    """cfg: dtype, atom, indextype, route, Nmax, oracles, features"""

    def __init__(self, cfg):
        self.cfg = cfg
        self.dtype = np.dtype(cfg['dtype'])
        self.atom = tuple(cfg['atom'])
        self.indextype = cfg.get('indextype', 'int64')
        self.Nmax = cfg['Nmax']
        self.oracles = set(cfg.get('oracles', ['model']))
        self.features = set(cfg.get('features', []))
        self.root = 'g'
        self.darr = import_darr()

    @property
    def path(self):
        return os.path.join(self.root, 'ra.darr')

    # ------------------------------------------------------------------ items
    def item(self, colour):
        """(object handed to Darr, reference ndarray) ; reference None = must be rejected"""
        dt, at = self.dtype, self.atom
        if colour == 's1':
            x = payload.values('A', 1, at, dt)
            return x, x
        if colour == 's2':
            ref = payload.values('B', 2, at, dt)
            return ref.tolist(), np.asarray(ref.tolist(), dtype=dt)
        if colour == 's0':
            x = np.zeros((0,) + at, dtype=dt)
            return x, x
        if colour == 'sC':
            src = payload.other_dtype_source('C', 1, at, dt)
            return src, np.asarray(src, dtype=dt)
        if colour == 'sE':     # same numeric type, opposite byte order
            ref = payload.values('H', 1, at, dt)
            return ref.astype(dt.newbyteorder('S')), ref
        if colour == 'sF':       # two rows, Fortran-contiguous (differs from C order when the atom has > 1 element)
            ref = payload.values('G', 2, at, dt)
            return np.asfortranarray(ref), ref
        if colour == 's3':
            x = payload.values('G', 3, at, dt)
            return x, x
        if colour == 'sBig':     # more than half the range of a small index type: the second one cannot be indexed any more
            n = int(np.iinfo(self.indextype).max) // 2 + 7
            x = payload.values('H', 1, at, dt)
            x = np.concatenate([x] * n).astype(dt)
            return x, x
        if colour == 'strnum':   # a string NumPy converts to ONE number: len() of the item (2) is not the number of values (1)
            return '12', None
        if colour == 'ovlist':   # a Python sequence holding an integer that does not fit the dtype: np.asarray(item, dtype) refuses it
            info = np.iinfo(dt)
            row = np.full(at, 1, dtype='int64').tolist() if at else 1
            big = np.full(at, int(info.max) + 45, dtype=object).tolist() if at else int(info.max) + 45
            return [row, big], None
        if colour == 'badatom':
            return np.zeros((1,) + at[:-1] + ((at[-1] + 1,) if at else (3,)), dtype=dt), None
        if colour == 'badatom0':      # zero-length subarray of the wrong atom: holds no values, still incompatible
            return np.zeros((0,) + at[:-1] + ((at[-1] + 1,) if at else (3,)), dtype=dt), None
        if colour == 'badzero':       # atom with a zero extent
            return np.zeros((2,) + at[:-1] + (0,), dtype=dt), None
        if colour == 'badrank':
            if at:
                return np.zeros((2,) + at[1:], dtype=dt) if len(at) > 1 else np.zeros((2,), dtype=dt), None
            return np.zeros((1, 1), dtype=dt), None
        if colour == 'unconv':
            return np.full((1,) + at, 'x', dtype=object).tolist(), None
        raise KeyError(colour)

    # ------------------------------------------------------------------ build
    def build(self):
        darr = self.darr
        os.makedirs(self.root, exist_ok=True)
        route = self.cfg['route']
        meta = None
        if route == 'create':
            subs = []
            ra = darr.create_raggedarray(self.path, atom=self.atom, dtype=self.dtype, accessmode='r+',
                                         indextype=self.indextype)
        else:
            items = [self.item('s1'), self.item('sE' if route == 'asE' else 's2')]
            if route == 'asS' and self.atom:
                # the first subarray is a strided view that is neither C- nor F-contiguous
                big = payload.values('I', 2, self.atom[:-1] + (2 * self.atom[-1],), self.dtype)
                view = big[..., ::2]
                items[0] = (view, np.ascontiguousarray(view))
            subs = [i[1] for i in items]
            objs = [i[0] for i in items]
            if route == 'gen':
                objs = (o for o in objs)
            if route == 'meta':
                meta = {'a': 1}
            ra = darr.asraggedarray(self.path, objs, dtype=self.dtype, metadata=meta, accessmode='r+',
                                    indextype=self.indextype)
        self.handles = {'ra': ra}
        self.model = RaggedModel(subs, self.dtype, self.atom, 'r+', meta)
        # start state must agree with the model in contents; everything else is for invariants
        try:
            ok = len(ra) == len(subs) and all(payload.same_bits(ra[k], subs[k]) for k in range(len(subs)))
        except Exception as e:  # noqa: BLE001
            ok = False
        if not ok:
            return [viol('start', f'create/{route}', f'n=={len(subs)}', 'start state differs from model',
                         f'creation route {route} ({self.cfg}) does not give the model contents')]
        return []

    def copy_model(self):
        return self.model.copy()

    def set_model(self, m):
        self.model = m.copy()

    def model_canon(self):
        return self.model.canon()

    def abstract(self):
        n = len(self.model.subs)
        tail0 = n > 0 and len(self.model.subs[-1]) == 0
        nv = sum(len(s) for s in self.model.subs)
        return f"n={'0' if n == 0 else ('1' if n == 1 else '>1')}," \
               f"values={'0' if nv == 0 else '>0'},last={'empty' if tail0 else 'nonempty'}"

    # ------------------------------------------------------------------ alphabet
    def enabled(self):
        n = len(self.model.subs)
        room = self.Nmax - n
        ops, disabled = [], 0
        grow = [(('append', 's1'), 1), (('append', 's2'), 1), (('append', 's0'), 1), (('append', 'sC'), 1),
                (('iterappend', 'ctx2'), 2),
                (('iterappend', 's1s0s2'), 3), (('iterappend', 'gen'), 2), (('iterappend', 'zeros'), 2)]
        if self.dtype.itemsize > 1:
            grow.append((('append', 'sE'), 1))
        if self.atom:
            grow.append((('append', 'sF'), 1))
        if 'big' in self.features:
            grow.append((('append', 'sBig'), 1))
        if 'long' in self.features:      # C08: only what the README depends on
            grow = [(('append', 's1'), 1), (('append', 's0'), 1), (('iterappend', 'z1'), 2)]
        for op, k in grow:
            if k <= room:
                ops.append(op)
            else:
                disabled += 1
        ops += [('iterappend', 'empty')]
        if 'long' in self.features:
            ops += [('truncate', k) for k in (0, -1, 5)]
            ops += [('reopen',)]
        else:
            ops += [('append', 'badatom'), ('append', 'badrank'), ('append', 'unconv'), ('append', 'badatom0'), ('append', 'badzero')]
            if self.dtype.kind in 'iu' and self.dtype.itemsize < 8:
                ops += [('append', 'ovlist')]
            if not self.atom:
                ops += [('append', 'strnum')]
            ops += [('truncate', k) for k in TRUNC_KS]
            ops += [('mode', 'r'), ('mode', 'r+'), ('reopen',), ('truncpath', 1)]
        if 'meta' in self.features:
            ops += [('meta', 'set', 'a'), ('meta', 'del', 'a')]
        return ops, disabled

    def _k(self, k):
        n = len(self.model.subs)
        return {'len': n, 'len+1': n + 1, '-len-1': -n - 1, '-len': -n}.get(k, k) if isinstance(k, str) else k

    def _visible(self):
        ra = self.handles['ra']
        return [(x.dtype.str, x.shape, x.tobytes()) for x in (ra[k] for k in range(len(ra)))]

    def _want(self):
        return [(s.dtype.str, s.shape, s.tobytes()) for s in self.model.subs]

    def _decoded(self):
        try:
            subs, v, i, top = decoder.decode_ragged(self.path, require_readme=False)
            return [(x.dtype.str, x.shape, x.tobytes()) for x in subs]
        except decoder.FormatError as e:
            return ('undecodable', str(e))

    # ------------------------------------------------------------------ step
    def step(self, op):
        r = self._step(op)
        if r.diverged and 'format' in self.oracles:
            pre = 'after ' + '/'.join(str(x) for x in op)
            try:
                decoder.decode_ragged(self.path)
            except decoder.FormatError as e:
                r.violations.append(viol('format', 'diverged', pre, f'not well-formed: {_cls(str(e))}',
                                         f'ragged directory is not well-formed {pre}: {e}'))
        return r

    def _step(self, op):
        darr = self.darr
        ra = self.handles['ra']
        m = self.model
        kind = op[0]
        pre = self.abstract() + ',' + m.mode
        opdesc = '/'.join(str(x) for x in op)
        newsubs = m.subs
        mutating = True
        modeblocked = False
        if kind in ('append', 'iterappend'):
            if kind == 'append':
                obj, ref = self.item(op[1])
                refs = [ref]
                call = lambda: ra.append(obj)
            else:
                spec = op[1]
                names = {'s1s0s2': ['s1', 's0', 's2'], 'empty': [], 'gen': ['s1', 's2'], 'z1': ['s0', 's1'],
                         'zeros': ['s0', 's0'], 'ctx2': ['s1', 's2']}[spec]
                its = [self.item(nm) for nm in names]
                refs = [i[1] for i in its]
                objs = [i[0] for i in its]
                arg = (o for o in objs) if spec == 'gen' else objs
                call = lambda: ra.iterappend(arg)
                if spec == 'ctx2':           # two single appends while the arrays are held open by an enclosing context
                    def call():
                        with ra.open_arrays():
                            ra.append(objs[0])
                            ra.append(objs[1])
            total = sum(len(x) for x in m.subs) + sum(len(r) for r in refs if r is not None)
            if any(r is None for r in refs):
                expect = 'raises'
            elif kind == 'append' and total > int(np.iinfo(self.indextype).max):
                expect = 'raises'          # the end index does not fit the index type
            elif m.mode == 'r':
                expect, modeblocked = 'raises', True
            else:
                expect = 'returns'
                newsubs = m.subs + refs
        elif kind in ('truncate', 'truncpath'):
            k = self._k(op[1])
            bypath = kind == 'truncpath'
            call = (lambda: darr.truncate_raggedarray(self.path, k)) if bypath else \
                   (lambda: darr.truncate_raggedarray(ra, k))
            ok = isinstance(k, int)
            if ok:
                nl = len(m.subs[:k])
                ok = 0 <= nl < len(m.subs)
            if not ok:
                expect = 'raises'
            elif m.mode == 'r' and not bypath:
                expect, modeblocked = 'raises', True
            else:
                expect = 'returns'
                newsubs = m.subs[:k]
        elif kind == 'mode':
            mutating = False
            call = lambda: setattr(ra, 'accessmode', op[1])
            expect = 'returns'
        elif kind == 'reopen':
            mutating = False
            call = lambda: self.handles.__setitem__('ra', darr.RaggedArray(self.path, accessmode=m.mode))
            expect = 'returns'
        elif kind == 'meta':
            return self._step_meta(op, pre)
        else:
            raise KeyError(op)
        dec0 = self._decoded() if expect == 'raises' else None
        what, val = outcome_of(call)
        label = what if what == 'returns' else f'raises:{exc_class(val)}'
        oracle = 'mode' if modeblocked else 'model'
        if kind == 'truncpath' and what == 'returns':
            self.handles['ra'] = darr.RaggedArray(self.path, accessmode=m.mode)
        ra = self.handles['ra']
        V = []
        if what != expect:
            V.append(viol(oracle, opdesc, pre, f'{label} (model: {expect})',
                          f'{opdesc} in state [{pre}] {label}; the list-of-arrays model {expect}',
                          exception=jsonable(val) if what == 'raises' else None))
            return StepResult(label, V, diverged=True)
        if what == 'returns':
            if kind == 'mode':
                m.mode = op[1]
            m.subs = list(newsubs)
        try:
            vis = self._visible()
        except Exception as e:  # noqa: BLE001
            V.append(viol(oracle, opdesc, pre, f'unreadable afterwards:{exc_class(e)}',
                          f'after {opdesc} in state [{pre}] ({label}) the live handle cannot be read: {e!r}'))
            return StepResult(label, V, diverged=True)
        if vis != self._want():
            sym = 'state changed by rejected call' if what == 'raises' else 'subarrays differ from model'
            V.append(viol(oracle, opdesc, pre, sym,
                          f'after {opdesc} in state [{pre}] ({label}) the live handle shows {len(vis)} subarrays '
                          f'{[v[1] for v in vis]}, model has {[s.shape for s in m.subs]} (or bytes differ)'))
            return StepResult(label, V, diverged=True)
        if what == 'raises' and mutating and self._decoded() != dec0:
            V.append(viol(oracle, opdesc, pre, 'on-disk state changed by rejected call',
                          f'{opdesc} in state [{pre}] raised but changed what a file reader sees'))
            return StepResult(label, V, diverged=True)
        return StepResult(label, V)

    def _step_meta(self, op, pre):
        ra, m = self.handles['ra'], self.model
        _, action, key = op
        opdesc = '/'.join(op)
        newmeta = dict(m.meta)
        if action == 'set':
            call = lambda: ra.metadata.update({key: 'v'})
            newmeta[key] = 'v'
            expect = 'returns'
        else:
            call = lambda: ra.metadata.pop(key)
            expect = 'returns' if key in m.meta else 'raises'
            newmeta.pop(key, None)
        if m.mode == 'r':
            expect = 'raises'
        what, val = outcome_of(call)
        label = what if what == 'returns' else f'raises:{exc_class(val)}'
        if what != expect:
            return StepResult(label, [viol('metamodel', opdesc, pre, label, 'metadata op disagrees with model')],
                              diverged=True)
        if what == 'returns':
            m.meta = newmeta
        return StepResult(label)

    # ------------------------------------------------------------------ invariants
    def invariant(self):
        V = []
        m = self.model
        pre = self.abstract() + ',' + m.mode
        if 'model' in self.oracles:
            for name, mk in (('live', lambda: self.handles['ra']),
                             ('fresh', lambda: self.darr.RaggedArray(self.path))):
                what, val = outcome_of(lambda: self._observe(mk()))
                if what == 'raises':
                    V.append(viol('model', 'observe', pre, f'{name} handle raises:{exc_class(val)}',
                                  f'{name} handle cannot be observed in state [{pre}]: {val!r}'))
                    continue
                for sym, msg in val:
                    V.append(viol('model', 'observe', pre, f'{name}: {sym}', f'{name} handle in state [{pre}]: {msg}'))
            # the requested index type is the one stored
            try:
                with open(os.path.join(self.path, 'indices', 'arraydescription.json')) as f:
                    nt = json.load(f).get('numtype')
                if nt != self.indextype:
                    V.append(viol('model', 'observe', pre, 'stored index type is not the requested one',
                                  f'indices/arraydescription.json has numtype {nt}, requested {self.indextype}'))
            except (OSError, ValueError) as e:
                V.append(viol('model', 'observe', pre, 'indices descriptor unreadable', repr(e)))
            leaks = snapshot.open_handles_on(self.root)
            if leaks:
                V.append(viol('model', 'observe', pre, 'descriptor or map left open',
                              f'open handles between operations: {leaks[:3]}'))
        if 'format' in self.oracles:
            V += self._check_format(pre)
        if 'readme' in self.oracles:
            V += check_readme_ragged(self.darr, self.path, 'state', pre)
        return V

    def _observe(self, ra):
        """Everything C04 says is observable, against the model.  Returns [(symptom, message)]."""
        m = self.model
        n = len(m.subs)
        out = []

        def bad(sym, msg):
            out.append((sym, msg))
        if len(ra) != n:
            bad('len differs', f'len {len(ra)} != {n}')
        if ra.narrays != n:
            bad('narrays differs', f'narrays {ra.narrays} != {n}')
        if tuple(ra.atom) != m.atom:
            bad('atom differs', f'atom {ra.atom} != {m.atom}')
        if np.dtype(ra.dtype).str != m.dtype.str:
            bad('dtype differs', f'dtype {np.dtype(ra.dtype).str} != {m.dtype.str}')
        size = sum(int(s.size) for s in m.subs)
        if ra.size != size:
            bad('size differs', f'size {ra.size} != {size}')
        for k in range(-n - 1, n + 1):
            what, val = outcome_of(lambda: ra[k])
            if -n <= k < n:
                if what == 'raises':
                    bad(f'ra[k] raises:{exc_class(val)}', f'ra[{k}] raises {val!r} (len {n})')
                elif not payload.same_bits(val, m.subs[k]):
                    bad('ra[k] differs', f'ra[{k}] is {val.dtype.str}{val.shape}, model {m.subs[k].shape} (or bytes)')
                elif not isinstance(val, np.ndarray) or isinstance(val, np.memmap):
                    bad('ra[k] is not a detached ndarray', f'type {type(val).__name__}')
            elif what == 'returns' or not isinstance(val, IndexError):
                bad('out-of-range index does not raise IndexError',
                    f'ra[{k}] with len {n}: {what} {exc_class(val) if what == "raises" else ""}')
        for idx in (1.0, '0', None, slice(0, 1)):
            what, val = outcome_of(lambda: ra[idx])
            if what == 'returns' or not isinstance(val, TypeError):
                bad('non-integer index does not raise TypeError',
                    f'ra[{idx!r}]: {what} {exc_class(val) if what == "raises" else ""}')
        for s in (0, 1, -1):
            for e in (None, 0, n, n + 1):
                for st in (1, 2, -1):
                    ee = n if e is None else e
                    try:
                        want = [m.subs[i] for i in range(s, ee, st)]
                    except IndexError:
                        want = IndexError
                    what, val = outcome_of(lambda: list(ra.iter_arrays(startindex=s, endindex=e, stepsize=st)))
                    if want is IndexError:
                        if what == 'returns' or not isinstance(val, IndexError):
                            bad('iter_arrays out of range does not raise IndexError',
                                f'iter_arrays({s},{e},{st}) len {n}: {what}')
                    elif what == 'raises':
                        bad(f'iter_arrays raises:{exc_class(val)}', f'iter_arrays({s},{e},{st}) len {n}: {val!r}')
                    elif len(val) != len(want) or not all(payload.same_bits(a, b) for a, b in zip(val, want)):
                        bad('iter_arrays differs', f'iter_arrays({s},{e},{st}) len {n} yields {len(val)} arrays, '
                                                  f'model {len(want)} (or contents differ)')
        return out

    def _check_format(self, pre):
        V = []
        m = self.model
        try:
            subs, v, i, top = decoder.decode_ragged(self.path)
        except decoder.FormatError as e:
            return [viol('format', 'state', pre, f'not well-formed: {_cls(str(e))}',
                         f'ragged directory is not well-formed in state [{pre}]: {e}')]
        if len(subs) != len(m.subs) or not all(payload.same_bits(a, b) for a, b in zip(subs, m.subs)):
            V.append(viol('format', 'state', pre, 'decoded subarrays differ from model',
                          f'independent reader gets {[s.shape for s in subs]}, model {[s.shape for s in m.subs]}'))
        try:
            fresh = self.darr.RaggedArray(self.path)
            if len(fresh) != len(subs) or not all(payload.same_bits(fresh[k], subs[k]) for k in range(len(subs))):
                V.append(viol('format', 'state', pre, 'decoded subarrays differ from what Darr reports',
                              'independent reader and a fresh RaggedArray disagree'))
        except Exception as e:  # noqa: BLE001
            V.append(viol('format', 'state', pre, f'Darr cannot open:{exc_class(e)}', repr(e)))
        if v.shape[1:] != m.atom or v.dtype.str != m.dtype.str:
            V.append(viol('format', 'state', pre, 'values array has wrong atom/dtype',
                          f'values {v.dtype.str}{v.shape}, model {m.dtype.str} atom {m.atom}'))
        return V


def check_readme_ragged(darr, path, op, pre):
    from darr.raggedarray import readcodetxt
    V = []
    for sub in ('values', 'indices'):
        V += [(dict(s, where=sub), w, d) for (s, w, d) in
              check_readme_array(darr, os.path.join(path, sub), op, pre)]
    rp = os.path.join(path, 'README.txt')
    if not os.path.isfile(rp):
        return V + [viol('readme', op, pre, 'top-level README.txt missing', 'README.txt missing')]
    with open(rp, 'rb') as f:
        raw = f.read()
    try:
        fresh = darr.RaggedArray(path)
        want = readcodetxt(fresh).encode('utf-8')
    except Exception as e:  # noqa: BLE001
        return V + [viol('readme', op, pre, f'cannot regenerate:{exc_class(e)}',
                         f'ragged README cannot be regenerated from a fresh handle: {e!r}')]
    if raw != want:
        V.append(viol('readme', op, pre, 'ragged README differs from regenerated text',
                      f'top-level README.txt is not the documentation Darr generates for the current state '
                      f'(first difference at byte {_firstdiff(raw, want)})'))
    text = raw.decode('utf-8', 'replace')
    try:
        subs, v, i, top = decoder.decode_ragged(path, require_readme=False)
    except decoder.FormatError:
        return V
    flat = re.sub(r'\s+', ' ', text)
    mm = re.search(r'sequence of (\d+) subarrays', flat)
    if mm and int(mm.group(1)) != len(subs):
        V.append(viol('readme', op, pre, 'stated subarray count is not the current one',
                      f'README says {mm.group(1)} subarrays, the directory holds {len(subs)}'))
    for mm in re.finditer(r'^\s+(\d+): \((\d+),', text, re.M):
        k, ln = int(mm.group(1)), int(mm.group(2))
        if k >= len(subs) or len(subs[k]) != ln:
            V.append(viol('readme', op, pre, 'listed subarray dimensions are not the current ones',
                          f'README lists subarray {k} with length {ln}; actual '
                          f'{len(subs[k]) if k < len(subs) else "no such subarray"}'))
            break
    for lang in fresh.readcodelanguages:
        code = fresh.readcode(lang)
        if code is not None and code not in text:
            V.append(viol('readme', op, pre, f'snippet for {lang} is not the current readcode()',
                          f'ragged README lacks the current readcode({lang!r}) output'))
    return V

"""C19 - Interleaved iterators/contexts on one Array are memory-safe and coherent (E5 schedule exploration)."""
import gc
import os
import shutil
import struct
import types

import numpy as np

from .. import snapshot
from ..common import fresh_dir, import_darr, jdump, rmtree, sha
from ..engines import sched
from ..report import HarnessError, Reporter
from ..sys_array import viol
from .c14 import frames_spec

N = 1 << 19                 # 2^19 float64 = 4 MiB: an unmapped region is really gone
# the two cells that reads and writes touch: each lies in the overlap of two consecutive frames of g2 (so that a chunk
# assembled from anything but the current contents shows) and inside frames of every other generator
KS = (N // 4 + 5, N // 2 + 5)
K = KS[1]
V1 = -1.0

GEN_PARAMS = {
    'g1': dict(chunklen=N // 2),
    'g2': dict(chunklen=N // 2 + 1, stepsize=N // 4),
    'g3': dict(chunklen=N // 2 - 3, startindex=1, include_remainder=False),
}
_TEMPLATE = [None]


def template():
    """The 4 MiB array every execution starts from (created once, copied per execution)."""
    if _TEMPLATE[0] is None:
        darr = import_darr()
        p = os.path.join(fresh_dir('c19tmpl'), 'a.darr')
        darr.asarray(p, np.arange(N, dtype='<f8'), accessmode='r+')
        _TEMPLATE[0] = p
    return _TEMPLATE[0]


def frames_of(g):
    p = GEN_PARAMS[g]
    return frames_spec(N, p['chunklen'], p.get('stepsize'), p.get('startindex'), p.get('endindex'),
                       p.get('include_remainder', True))


class World:
    def __init__(self, wd, gens, ctxs, handle_mode='r+', ctx_mode=None, keep_cells=(0, 1)):
        self.handle_mode, self.ctx_mode = handle_mode, ctx_mode
        self.keep_cells = tuple(keep_cells)     # cells whose first shared read is retained (and part of the state)
        self.map_mode = None                      # access mode of the shared map while it is open
        self.badopen_done = False
        self.kept = []                            # (value returned by an earlier read, its bytes at that moment)
        self.kept_flags = [False, False]
        self.wd = wd
        self.gens = list(gens)
        self.ctxs = list(ctxs)
        self.gstate = {g: 'U' for g in gens}      # 'U', int (chunks yielded), 'F', 'C', 'D'
        self.cstate = {c: 'N' for c in ctxs}      # 'N', 'E', 'X'
        self.gobj = {}
        self.cobj = {}
        self.toggle = [0, 0]
        self.frames = {g: frames_of(g) for g in gens}
        self._flags = {}
        self.first_finished = None
        self.opener = None                        # the live user that was the only one when it started
        self.dirty = {g: False for g in gens}

    # ------------------------------------------------------------------ set-up
    def build(self):
        darr = import_darr()
        self.path = os.path.join(self.wd, 'a.darr')
        shutil.copytree(template(), self.path)
        self.a = darr.Array(self.path, accessmode=self.handle_mode)
        self.model = np.arange(N, dtype='<f8')
        self.datafile = os.path.realpath(os.path.join(self.path, 'arrayvalues.bin'))

    # ------------------------------------------------------------------ alphabet
    def live_users(self):
        return [g for g in self.gens if isinstance(self.gstate[g], int)] + [c for c in self.ctxs if self.cstate[c] == 'E']

    def enabled(self):
        ops = []
        for g in self.gens:
            st = self.gstate[g]
            if st == 'U':
                ops.append(('start', g))
            elif isinstance(st, int):
                ops += [('advance', g), ('close', g), ('drop', g)]
        for i, c in enumerate(self.ctxs):
            st = self.cstate[c]
            outer_open = all(self.cstate[o] == 'E' for o in self.ctxs[:i])
            inner_open = any(self.cstate[o] == 'E' for o in self.ctxs[i + 1:])
            if st == 'N' and outer_open:
                ops.append(('enter', c))
            elif st == 'E' and not inner_open:
                ops.append(('exit', c))
        ops += [('read', 0), ('read', 1), ('badread',)]
        # a write is attempted where it is legitimate: the handle is r+, or the shared map was opened r+ by its first user
        if (self.map_mode or self.handle_mode) == 'r+':
            ops += [('write', 0), ('write', 1)]
        if not self.badopen_done and not self.live_users():
            ops.append(('badopen',))
        return ops

    def abstract(self):
        return {'gens': {g: self.gstate[g] for g in self.gens}, 'ctxs': dict(self.cstate), 'toggle': list(self.toggle),
                'badopen': self.badopen_done, 'map_mode': self.map_mode, 'kept': list(self.kept_flags)}

    # ------------------------------------------------------------------ one action on the real object
    def _user_starts(self, name):
        live = self.live_users()
        if not live:
            self.opener = name
            self.map_mode = (self.ctx_mode or self.handle_mode) if name in self.ctxs else self.handle_mode
        else:
            self._flags['two_users_share_map'] = True

    def _user_finishes(self, name):
        others = [u for u in self.live_users() if u != name]
        if self.first_finished is None:
            self.first_finished = name
            self._flags[f'first_finished:{name}'] = True
        if others and self.opener == name:
            self._flags['opener_finishes_while_others_live'] = True
        if self.opener == name:
            self.opener = None
        if not others:
            self.map_mode = None

    def perform(self, act, checking=True):
        """-> (violations, outcome label)"""
        kind = act[0]
        a = self.a
        V = []

        def bad(symptom, what, diverged=True):
            sig = {'oracle': 'sched', 'op': kind, 'symptom': symptom, 'diverged': diverged}
            V.append((sig, what, {}))
        label = 'ok'
        try:
            if kind in ('start', 'advance'):
                g = act[1]
                if kind == 'start':
                    self._user_starts(g)
                    self.gobj[g] = a.iterchunks(**GEN_PARAMS[g])
                    i = 0
                else:
                    i = self.gstate[g]
                    if self.dirty[g]:
                        self._flags['write_between_advances'] = True
                fr = self.frames[g]
                try:
                    got = next(self.gobj[g])
                    stopped = False
                except StopIteration:
                    stopped = True
                if i >= len(fr):
                    if not stopped:
                        bad('generator yields beyond its last frame', f'{g} yielded a chunk after its {len(fr)} frames')
                    self._user_finishes(g)
                    self.gstate[g] = 'F'
                    label = 'exhausted'
                else:
                    if stopped:
                        bad('generator stops early', f'{g} raised StopIteration at frame {i} of {len(fr)}')
                        self.gstate[g] = 'F'
                    else:
                        s, e = fr[i]
                        if checking:
                            want = self.model[s:e]
                            if not (isinstance(got, np.ndarray) and got.shape == want.shape and got.dtype == want.dtype
                                    and np.array_equal(got, want)):
                                nd = int(np.sum(got != want)) if getattr(got, 'shape', None) == want.shape else -1
                                bad('chunk differs from the contents at the moment it was returned',
                                    f'{g} frame {i} [{s}:{e}]: {nd} elements differ (cells {KS} hold {[float(self.model[x]) for x in KS]} in the array)')
                        self.gstate[g] = i + 1
                        self.dirty[g] = False
                        label = 'chunk'
            elif kind == 'close':
                g = act[1]
                self.gobj[g].close()
                self._user_finishes(g)
                self.gstate[g] = 'C'
            elif kind == 'drop':
                g = act[1]
                del self.gobj[g]
                gc.collect()
                self._user_finishes(g)
                self.gstate[g] = 'D'
            elif kind == 'enter':
                c = act[1]
                self._user_starts(c)
                cm = a.open_array(accessmode=self.ctx_mode)
                cm.__enter__()
                self.cobj[c] = cm
                self.cstate[c] = 'E'
            elif kind == 'exit':
                c = act[1]
                self.cobj[c].__exit__(None, None, None)
                self._user_finishes(c)
                self.cstate[c] = 'X'
            elif kind == 'badread':
                # an out-of-range read fails; nothing else may be affected by it
                try:
                    a[N + 5]
                    bad('out-of-range read did not raise', f'a[{N + 5}] returned')
                except IndexError:
                    label = 'indexerror'
            elif kind == 'badopen':
                # opening fails part-way (the description file is away for a moment) and, separately, is refused for an
                # invalid access mode: both must leave the handle as it was (nothing open, later use unaffected)
                self.badopen_done = True
                descr = os.path.join(self.path, 'arraydescription.json')
                os.rename(descr, descr + '.away')
                try:
                    try:
                        a[KS[0]]
                        bad('read succeeded without the array description', 'a[k] returned although arraydescription.json is missing')
                    except Exception:  # noqa: BLE001
                        label = 'refused'
                finally:
                    os.rename(descr + '.away', descr)
                try:
                    a.open_array(accessmode='w').__enter__()
                    bad('open_array with an invalid access mode did not raise', "open_array(accessmode='w') returned")
                except ValueError:
                    pass
            elif kind == 'read':
                c = act[1]
                kk = KS[c]
                got = a[kk - 1:kk + 2]                  # a small slice around the cell
                want = self.model[kk - 1:kk + 2]
                if checking and not (isinstance(got, np.ndarray) and got.shape == want.shape and np.array_equal(got, want)):
                    bad('element read differs from the contents', f'a[{kk - 1}:{kk + 2}] returned {got!r}, contents are {want!r}')
                # a value once returned must stay what it was: the first slice of each cell that was read while other users
                # hold the array open is kept (and is part of the state, so that later writes and closings follow it)
                if isinstance(got, np.ndarray) and c in self.keep_cells and self.live_users() and not self.kept_flags[c]:
                    self.kept.append((got, got.tobytes()))
                    self.kept_flags[c] = True
                label = f'read{self.toggle[c]}'
            elif kind == 'write':
                c = act[1]
                kk = KS[c]
                newv = V1 if self.toggle[c] == 0 else float(kk)
                a[kk] = newv
                self.model[kk] = newv
                self.toggle[c] ^= 1
                for g in self.gens:
                    if isinstance(self.gstate[g], int):
                        self.dirty[g] = True
                if checking:
                    with open(self.datafile, 'rb') as f:
                        f.seek(kk * 8)
                        raw = struct.unpack('<d', f.read(8))[0]
                    fresh = float(import_darr().Array(self.path)[kk])
                    live = float(a[kk])
                    if not (raw == newv and fresh == newv and live == newv):
                        bad('write did not take effect', f'a[{kk}] = {newv}: file holds {raw}, fresh handle {fresh}, live handle {live}')
            else:
                raise KeyError(kind)
        except Exception as e:  # noqa: BLE001
            from ..engines.opgraph import blames_darr
            if not checking or not (blames_darr(e) or isinstance(e, (ValueError, OSError, TypeError))):
                raise
            bad(f'raises {type(e).__name__}', f'{" ".join(map(str, act))} raised {e!r:.200}')
            label = f'raises:{type(e).__name__}'
        return V, label

    # ------------------------------------------------------------------ invariants
    def quiescent(self):
        return not self.live_users()

    def state_invariant(self):
        for arr, raw in self.kept:
            # reading a value that Darr handed out earlier (a view on a map that was closed would kill this process)
            if arr.tobytes() != raw:
                return [({'oracle': 'sched', 'op': 'read', 'symptom': 'a value returned earlier changed afterwards', 'diverged': True},
                         f'a slice returned by an earlier read now holds {arr!r:.60}: it was not detached from the shared map', {})]
        if not self.quiescent():
            return []
        gc.collect()
        left = [h for h in snapshot.open_handles_on(self.path)]
        if left:
            kinds = sorted({k for k, _ in left})
            return [({'oracle': 'sched', 'op': 'finish', 'symptom': f'{"/".join(kinds)} of the array left open after all users finished',
                      'diverged': True},
                     f'all generators and contexts are finished but {left} remain open', {})]
        return []

    def flags(self):
        f = dict(self._flags)
        if self.quiescent() and any(s != 'U' for s in self.gstate.values()):
            f['terminal_state'] = True
        return f

    # ------------------------------------------------------------------ canonical state, from inside
    def _desc(self, v, depth=0):
        a = self.a
        if v is None or isinstance(v, (bool, int, float, str, bytes)):
            return repr(v)
        if isinstance(v, np.ndarray):
            mm = getattr(v, '_mmap', None)
            cur = getattr(a, '_memmap', None)
            return (f'<{type(v).__name__} current={v is cur} mapped={mm is not None} '
                    f'closed={getattr(mm, "closed", None)} shape={v.shape}>')
        if isinstance(v, np.dtype):
            return f'dtype({v.str})'
        if isinstance(v, (tuple, list)):
            return type(v).__name__ + '(' + ','.join(self._desc(x, depth + 1) for x in v) + ')'
        if isinstance(v, dict):
            return '{' + ','.join(f'{k!r}:{self._desc(x, depth + 1)}' for k, x in sorted(v.items(), key=lambda kv: repr(kv[0]))) + '}'
        if isinstance(v, types.GeneratorType):
            return self._gen_desc(v, depth + 1)
        if hasattr(v, 'closed') and hasattr(v, 'fileno'):
            return f'<file closed={v.closed}>'
        if hasattr(v, 'gen') and isinstance(getattr(v, 'gen'), types.GeneratorType):      # contextlib helper
            return '<cm ' + self._gen_desc(v.gen, depth + 1) + '>'
        if v is a:
            return '<the array>'
        return f'<{type(v).__name__}>'

    def _gen_desc(self, g, depth=0):
        fr = g.gi_frame
        if fr is None:
            return '<gen finished>'
        if depth > 6:
            return '<gen ...>'
        loc = ','.join(f'{k}={self._desc(v, depth + 1)}' for k, v in sorted(fr.f_locals.items()) if k != 'self')
        sub = g.gi_yieldfrom
        return f'<gen {g.gi_code.co_name}@{fr.f_lasti} [{loc}] from={self._desc(sub, depth + 1) if sub is not None else None}>'

    def canon(self):
        parts = [jdump(self.abstract())]
        d = self.a.__dict__
        for k in sorted(d):
            parts.append(f'{k}={self._desc(d[k])}')
        for g in self.gens:
            parts.append(f'{g}:' + (self._gen_desc(self.gobj[g]) if g in self.gobj else '-'))
        for c in self.ctxs:
            parts.append(f'{c}:' + (self._desc(self.cobj[c]) if c in self.cobj else '-'))
        real = os.path.realpath(self.wd)
        parts.append(repr(sorted((k, t.replace(real, '<wd>')) for k, t in snapshot.open_handles_on(self.path))))
        return sha(*parts)


def bounds(tier):
    if tier == 'quick':
        return ['g1', 'g2'], ['x1']
    return ['g1', 'g2'], ['x1', 'x2']       # thorough: two nested contexts; a third generator runs in an extra world


EXTRA_WORLDS = {'quick': [], 'thorough': [(['g1', 'g2', 'g3'], [])]}


def make_factory(tier, variant='rw'):
    gens, ctxs = bounds(tier)
    template()
    if variant == 'ro':          # read-only handle, the context opens the data read-write
        gens, ctxs = gens[:1], ctxs[:1]

        def factory(wd):
            return World(wd, gens, ctxs, handle_mode='r', ctx_mode='r+')
        return factory, gens, ctxs

    keep = (1,) if tier == 'quick' else (0, 1)

    def factory(wd):
        return World(wd, gens, ctxs, keep_cells=keep)
    return factory, gens, ctxs


REQUIRED_FLAGS = ['two_users_share_map', 'write_between_advances', 'opener_finishes_while_others_live', 'terminal_state']


def run(tier):
    rep = Reporter('C19', tier, 'sched')
    factory, gens, ctxs = make_factory(tier)
    res = sched.explore(factory, max_states=400000)
    for (sig, what, replay) in res.violations:
        sig = {k: v for k, v in sig.items() if k != 'diverged'}
        rep.violation(sig, what, dict(replay, bounds={'gens': gens, 'ctxs': ctxs}, variant='rw'))
    # second, small world: the handle is read-only and the context opens the data read-write (documented use)
    ro_factory, ro_gens, ro_ctxs = make_factory(tier, 'ro')
    ro = sched.explore(ro_factory, max_states=400000)
    for (sig, what, replay) in ro.violations:
        sig = {k: v for k, v in sig.items() if k != 'diverged'}
        rep.violation(dict(sig, variant='read-only handle'), 'read-only handle, context opened r+: ' + what,
                      dict(replay, bounds={'gens': ro_gens, 'ctxs': ro_ctxs}, variant='ro'))
    extra_cov = []
    for (xg, xc) in EXTRA_WORLDS[tier]:
        template()
        xf = (lambda g, c: (lambda wd: World(wd, g, c)))(xg, xc)
        xr = sched.explore(xf, max_states=400000)
        for (sig, what, replay) in xr.violations:
            sig = {k: v for k, v in sig.items() if k != 'diverged'}
            rep.violation(sig, what, dict(replay, bounds={'gens': xg, 'ctxs': xc}, variant='extra'))
        extra_cov.append({'gens': xg, 'ctxs': xc, 'states': xr.states, 'executions': xr.executions, 'closed': xr.closed})
        ro.states += xr.states
        ro.executions += xr.executions
        ro.closed = ro.closed and xr.closed
    need = REQUIRED_FLAGS + [f'first_finished:{x}' for x in gens + ctxs]
    missing = [f for f in need if not res.flags.get(f)]
    if 'write' not in ro.outcomes and not ro.violations:
        missing.append('a write through a read-only handle inside an r+ context')
    if missing and rep.n_viol == 0 and not rep.known_hits:
        raise HarnessError(f'vacuous schedule exploration: never observed {missing}')
    # validate a handful of BFS histories by running them twice from scratch: same canonical state
    hs = sorted(res.histories.items(), key=lambda kv: (len(kv[1]), kv[0]))
    pick = hs[::max(1, len(hs) // 25)][:25] + hs[-5:]
    validated = 0
    for canon, h in pick:
        if not h:
            continue
        out = sched.run_child(factory, h[:-1], tuple(h[-1]))
        if out.get('status') != 'ok' or out['canon'] != canon:
            raise HarnessError(f'schedule {h} does not reproduce its state (nondeterminism)')
        validated += 1
    cov = {
        'states': res.states + ro.states, 'transitions': res.executions + ro.executions,
        'traces_validated_against_impl': res.executions + ro.executions,
        'extra_worlds': extra_cov,
        'readonly_handle_world': {'states': ro.states, 'executions': ro.executions, 'closed': ro.closed,
                                  'outcomes_per_action': ro.outcomes},
        'samples': [{'schedule': s} for s in res.samples],
        'executions_forked': res.executions, 'max_depth': res.max_depth, 'closed_at_fixpoint': res.closed,
        'exhaustive': res.closed and ro.closed, 'cap_hit': res.cap_hit, 'executions_killed_or_hung': res.crashed,
        'outcomes_per_action': res.outcomes, 'coverage_flags_seen_in_executions': res.flags,
        'reproducibility_reruns': validated,
        'rule': (f'actors: generators {gens} with parameters {jdump({g: GEN_PARAMS[g] for g in gens})} on one Array of {N} float64 '
                 f'(4 MiB) opened r+, contexts {ctxs} (nested, LIFO), reads and writes of two cells (each toggling, each inside the overlap of two '
                 f'consecutive frames); actions start/advance/close/drop(del+gc) per generator, enter/exit per context, read, write, and one '
                 f'failing open_array(accessmode="w"); a second world has a read-only handle whose context opens the data r+ (writes are '
                 f'attempted exactly where the shared map is r+); '
                 f'breadth-first search over ALL interleavings to the fixpoint of the state graph (state = actor positions + generic '
                 f'dump of the handle, of every generator frame and of the open descriptors/maps, computed inside the process); every '
                 f'transition is one real execution in its own forked process (history replayed, action performed, oracles evaluated); '
                 f'traces_validated_against_impl = executions, since the model never runs without the implementation'),
    }
    return rep.finish('model_checking', cov,
                      assumptions=['generators and contexts are one-shot; contexts are exited in LIFO order (with-statement nesting)',
                                   'one handle, one thread: interleaving is at the granularity of generator steps and calls'])


def replay(rec):
    b = rec.get('bounds', {})
    tier = 'thorough' if len(b.get('ctxs', [])) > 1 else 'quick'
    factory, gens, ctxs = make_factory(tier, rec.get('variant', 'rw') if rec.get('variant') != 'extra' else 'rw')
    if rec.get('variant') == 'extra':
        template()
        factory = (lambda g, c: (lambda wd: World(wd, g, c)))(b['gens'], b['ctxs'])
    if rec.get('variant') == 'ro' and len(rec.get('bounds', {}).get('gens', [])) == 1:
        factory, gens, ctxs = make_factory('quick', 'ro')
    h = [tuple(x) for x in rec['schedule']]
    outs = []
    for _ in range(2):
        out = sched.run_child(factory, h[:-1], h[-1]) if h else sched.run_child(factory, [], None)
        outs.append((out['status'], out.get('signal'), [(jdump(v[0]), v[1]) for v in out.get('violations', [])]))
    if outs[0] != outs[1]:
        print('REPLAY NOT DETERMINISTIC')
        return 2
    print(f'replay of C19 schedule {sched.fmt(h)}:')
    st, sig, vs = outs[0]
    if st == 'signal':
        print(f'  violation: interpreter killed by signal {sig}')
        return 1
    if st != 'ok':
        print(f'  violation: {st}')
        return 1
    if not vs:
        print('  no violation observed')
        return 0
    for s, w in vs:
        print(f'  violation: {w}')
    return 1

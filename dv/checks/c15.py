"""C15 - copy() and archive() produce faithful, independent replicas (E2 + exhaustive short histories)."""
import itertools
import os
import tarfile
import warnings

import numpy as np

from .. import payload, snapshot
from ..common import import_darr, outcome_of, exc_class, rmtree
from ..engines.enum import product, run_enum, replay_case
from ..sys_array import viol
from ..sys_meta import jeq
from .c01 import safe_cast, source_values

SHAPES = [(0,), (1,), (5,), (0, 2), (5, 2), (2, 1, 3)]
SRC_Q = ['<f8', '>i2', '<c8', '|u1', '>f4', '<u8']
META = {'none': None, 'nested': {'a': {'b': [1, 2.5, None]}, 'é': 'ü'}}


def same(a, b):
    a, b = np.asarray(a), np.asarray(b)
    return a.dtype.str == b.dtype.str and a.shape == b.shape and a.tobytes() == b.tobytes()


def eval_copy(case):
    darr = import_darr()
    warnings.simplefilter('ignore')
    src, dtarg, shape, cl, mode, meta = case['src'], case['dtype'], tuple(case['shape']), case['chunklen'], \
        case['accessmode'], META[case['meta']]
    rmtree('s.darr')
    rmtree('c.darr')
    special = dtarg is None or safe_cast(src, dtarg)
    base = source_values(shape, src, special)
    if shape[0] == 0:
        s = darr.create_array('s.darr', shape=shape, dtype=src, metadata=meta, accessmode='r')
    else:
        s = darr.asarray('s.darr', base, metadata=meta, accessmode='r')
    chunklen = {'len+1': shape[0] + 1}.get(cl, cl)
    ref = base.astype(dtarg) if dtarg is not None else base
    sbefore = snapshot.snap('s.darr')
    occ = case.get('occupant')
    if occ:          # the destination already holds another array, with metadata of its own
        darr.asarray('c.darr', np.arange(7, dtype='<i2'), metadata={'old': 'occupant', 'n': 7})
        w, c = outcome_of(lambda: s.copy('c.darr', dtype=dtarg, chunklen=chunklen, accessmode=mode, overwrite=True))
    else:
        w, c = outcome_of(lambda: s.copy('c.darr', dtype=dtarg, chunklen=chunklen, accessmode=mode))
    V = []
    pre = f'array,{"empty" if shape[0] == 0 else "nonempty"},dtype={"given" if dtarg else "None"}' + (',onto occupied path' if occ else '')
    desc = f'Array({src}{shape}).copy(dtype={dtarg}, chunklen={cl}, accessmode={mode}, metadata={case["meta"]})' + \
        (' with overwrite=True onto an array that has metadata' if occ else '')
    if w == 'raises':
        V.append(viol('copy', 'Array.copy', pre, f'raises {exc_class(c)}', f'{desc} raises {c!r}'))
    else:
        for name, h in (('returned', c), ('fresh', None)):
            ww, got = outcome_of(lambda: (lambda hh: (hh[:], np.dtype(hh.dtype).str, dict(hh.metadata), hh.accessmode))(
                h if h is not None else darr.Array('c.darr')))
            if ww == 'raises':
                V.append(viol('copy', 'Array.copy', pre, f'{name} copy unreadable', f'{desc}: {got!r}'))
                continue
            if not same(got[0], ref) or got[1] != ref.dtype.str:
                V.append(viol('copy', 'Array.copy', pre, 'copy differs from a[:].astype(dtype)',
                              f'{desc}: {name} handle shows {got[1]}{got[0].shape}, expected {ref.dtype.str}{ref.shape} (or values)'))
            if not jeq(got[2], dict(s.metadata)):
                V.append(viol('copy', 'Array.copy', pre, 'metadata differ', f'{desc}: {got[2]!r} vs {dict(s.metadata)!r}'))
            if name == 'returned' and got[3] != mode:
                V.append(viol('copy', 'Array.copy', pre, 'accessmode not as requested', f'{desc}: {got[3]}'))
        if (os.path.exists('c.darr/metadata.json')) != bool(meta):
            V.append(viol('copy', 'Array.copy', pre, 'metadata.json existence differs from source',
                          f'{desc}: copy has metadata.json={os.path.exists("c.darr/metadata.json")}'))
    if snapshot.snap('s.darr') != sbefore:
        V.append(viol('copy', 'Array.copy', pre, 'source changed by copy', desc))
    rmtree('s.darr')
    rmtree('c.darr')
    return V, ('copy', shape[0] == 0, len(shape), dtarg is not None, cl, case['meta'], bool(occ)), 1


RAGGED_SRC = {'nosubs': [], 'onlyempty': [0, 0], 'mixed': [2, 0, 1], 'single': [3]}


def eval_rcopy(case):
    darr = import_darr()
    warnings.simplefilter('ignore')
    src, dtarg, atom, which, meta = case['src'], case['dtype'], tuple(case['atom']), case['content'], META[case['meta']]
    rmtree('s.darr')
    rmtree('c.darr')
    subs = [payload.values('A' if i % 2 == 0 else 'B', n, atom, np.dtype(src)) for i, n in enumerate(RAGGED_SRC[which])]
    if subs:
        s = darr.asraggedarray('s.darr', subs, dtype=src, metadata=meta, accessmode='r', indextype=case['indextype'])
    else:
        s = darr.create_raggedarray('s.darr', atom=atom, dtype=src, metadata=meta, accessmode='r',
                                    indextype=case['indextype'])
    refs = [x.astype(dtarg) if dtarg is not None else x for x in subs]
    rdt = np.dtype(dtarg) if dtarg is not None else np.dtype(src)
    sbefore = snapshot.snap('s.darr')
    w, c = outcome_of(lambda: s.copy('c.darr', dtype=dtarg))
    V = []
    pre = f'ragged,{which},dtype={"given" if dtarg else "None"}'
    desc = f'RaggedArray({src}, atom={atom}, {which}).copy(dtype={dtarg}, metadata={case["meta"]})'
    if w == 'raises':
        V.append(viol('copy', 'RaggedArray.copy', pre, f'raises {exc_class(c)}',
                      f'{desc} raises {c!r}; target exists afterwards: {os.path.exists("c.darr")}'))
    else:
        for name, h in (('returned', c), ('fresh', None)):
            def obs(hh):
                return ([hh[k] for k in range(len(hh))], np.dtype(hh.dtype).str, tuple(hh.atom), dict(hh.metadata))
            ww, got = outcome_of(lambda: obs(h if h is not None else darr.RaggedArray('c.darr')))
            if ww == 'raises':
                V.append(viol('copy', 'RaggedArray.copy', pre, f'{name} copy unreadable', f'{desc}: {got!r}'))
                continue
            if len(got[0]) != len(refs) or not all(same(a, b) for a, b in zip(got[0], refs)) or \
                    np.dtype(got[1]).str != rdt.str.replace('=', '<') or got[2] != atom:
                V.append(viol('copy', 'RaggedArray.copy', pre, 'copy differs subarray by subarray',
                              f'{desc}: {name} handle has {len(got[0])} subarrays dtype {got[1]} atom {got[2]}; '
                              f'expected {len(refs)} of {rdt.str} atom {atom}'))
            if not jeq(got[3], dict(s.metadata)):
                V.append(viol('copy', 'RaggedArray.copy', pre, 'metadata differ', f'{desc}: {got[3]!r}'))
        if os.path.exists('c.darr/metadata.json') != bool(meta):
            V.append(viol('copy', 'RaggedArray.copy', pre, 'metadata.json existence differs from source',
                          f'{desc}: copy has metadata.json={os.path.exists("c.darr/metadata.json")}'))
    if snapshot.snap('s.darr') != sbefore:
        V.append(viol('copy', 'RaggedArray.copy', pre, 'source changed by copy', desc))
    rmtree('s.darr')
    rmtree('c.darr')
    return V, ('rcopy', which, len(atom), dtarg is not None, case['meta']), 1


# ---------------------------------------------------------------- independence: all short histories
ACTIONS = ['assign', 'append', 'truncate', 'metaset', 'metadel', 'delete']


def eval_indep(case):
    """One history: a sequence of (side, action) applied to a (source, copy) pair."""
    darr = import_darr()
    kind, hist = case['kind'], case['history']
    rmtree('s.darr')
    rmtree('c.darr')
    if kind == 'array':
        ref = np.arange(6, dtype='>i2').reshape(3, 2)
        s = darr.asarray('s.darr', ref, metadata={'k': 1}, accessmode='r+')
        c = s.copy('c.darr', accessmode='r+')
        model = {'s': ref.copy(), 'c': ref.copy()}
    else:
        subs = [np.array([1.5, 2.5]), np.array([]), np.array([3.5])]
        s = darr.asraggedarray('s.darr', subs, metadata={'k': 1}, accessmode='r+')
        c = s.copy('c.darr', accessmode='r+')
        model = {'s': [x.copy() for x in subs], 'c': [x.copy() for x in subs]}
    h = {'s': s, 'c': c}
    path = {'s': 's.darr', 'c': 'c.darr'}
    alive = {'s': True, 'c': True}
    V = []
    for step, (side, act) in enumerate(hist):
        other = 'c' if side == 's' else 's'
        if not alive[side]:
            break
        before = snapshot.snap(path[other])
        x = h[side]
        if kind == 'array':
            def do():
                if act == 'assign':
                    x[0] = 99
                    model[side][0] = 99
                elif act == 'append':
                    x.append([[7, 8]])
                    model[side] = np.concatenate([model[side], np.array([[7, 8]], dtype='>i2')]).astype('>i2')
                elif act == 'truncate':
                    if len(model[side]) > 0:
                        darr.truncate_array(x, -1)
                        model[side] = model[side][:-1]
                elif act == 'metaset':
                    x.metadata['z'] = step
                elif act == 'metadel':
                    x.metadata.pop('k', None)
                elif act == 'delete':
                    darr.delete_array(x)
                    alive[side] = False
        else:
            def do():
                if act == 'assign':       # ragged arrays have no item assignment: use append of an empty subarray
                    x.append([])
                    model[side].append(np.array([]))
                elif act == 'append':
                    x.append([4.5, 5.5])
                    model[side].append(np.array([4.5, 5.5]))
                elif act == 'truncate':
                    if len(model[side]) > 0:
                        darr.truncate_raggedarray(x, -1)
                        model[side] = model[side][:-1]
                elif act == 'metaset':
                    x.metadata['z'] = step
                elif act == 'metadel':
                    x.metadata.pop('k', None)
                elif act == 'delete':
                    darr.delete_raggedarray(x)
                    alive[side] = False
        w, v = outcome_of(do)
        if w == 'raises':
            V.append(viol('copy', 'independence', kind, f'{act} on one side raises {exc_class(v)}',
                          f'{kind}: history {hist[:step + 1]}: {v!r}'))
            break
        if alive[other]:
            after = snapshot.snap(path[other])
            ok = after == before
            if ok:
                if kind == 'array':
                    ok = same(darr.Array(path[other])[:], model[other])
                else:
                    r = darr.RaggedArray(path[other])
                    ok = len(r) == len(model[other]) and all(np.array_equal(r[k], model[other][k]) for k in range(len(r)))
            if not ok:
                V.append(viol('copy', 'independence', kind, f'{act} on one side changed the other',
                              f'{kind}: after history {hist[:step + 1]} the {"copy" if other == "c" else "source"} changed: '
                              f'{snapshot.diff(before, after)[:3]}'))
                break
    rmtree('s.darr')
    rmtree('c.darr')
    return V, ('indep', kind, tuple(a for _, a in hist)), 1


# ---------------------------------------------------------------- archive
def eval_archive(case):
    darr = import_darr()
    kind, ctype, explicit, exists, ow = case['kind'], case['ctype'], case['explicit'], case['exists'], case['overwrite']
    rmtree('w')
    os.makedirs('w')
    if kind == 'array':
        a = darr.asarray('w/a.darr', np.arange(12, dtype='>f4').reshape(4, 3), metadata={'k': [1, 2]})
    else:
        a = darr.asraggedarray('w/a.darr', [[1, 2], [], [3]], metadata={'k': [1, 2]})
    if case.get('userfiles'):
        a.datadir.write_txt('notes.txt', 'notes the user keeps with the data\n')
        a.datadir.write_jsondict('calibration.json', {'gain': 2.5})
        os.makedirs('w/a.darr/extra')
        with open('w/a.darr/extra/raw.dat', 'wb') as f:
            f.write(b'\x00\x01\x02')
    apath = 'w/custom.archive' if explicit else f'w/a.darr.tar.{ctype}'
    V = []
    pre = f'{kind},{ctype}'
    if ctype == 'zip':
        before = snapshot.snap('w')
        w, v = outcome_of(lambda: a.archive(apath if explicit else None, compressiontype=ctype))
        if w == 'returns' or snapshot.snap('w') != before:
            V.append(viol('archive', 'archive', pre, 'invalid compression type accepted or something created',
                          f'archive(compressiontype="zip"): {w}'))
        rmtree('w')
        return V, ('archive-invalid', kind), 1
    if exists:
        with open(apath, 'wb') as f:
            f.write(b'previous archive content')
    before = snapshot.snap('w')
    w, v = outcome_of(lambda: a.archive(apath if explicit else None, compressiontype=ctype, overwrite=ow))
    after = snapshot.snap('w')
    desc = f'{kind}.archive({"explicit path" if explicit else "default path"}, {ctype}, overwrite={ow}, existing={exists})'
    if exists and not ow:
        if w == 'returns' or after != before:
            V.append(viol('archive', 'archive', pre, 'existing archive replaced without overwrite=True',
                          f'{desc}: {w}; changes {snapshot.diff(before, after)[:3]}'))
    elif w == 'raises':
        V.append(viol('archive', 'archive', pre, f'raises {exc_class(v)}', f'{desc}: {v!r}'))
    else:
        if str(v) != apath or not os.path.isfile(apath):
            V.append(viol('archive', 'archive', pre, 'archive not at the announced path', f'{desc}: returned {v}'))
        else:
            os.makedirs('w/x')
            with tarfile.open(apath, 'r:*') as tf:
                tf.extractall('w/x')
            got = snapshot.snap('w/x/a.darr')
            want = snapshot.snap('w/a.darr')
            if got != want:
                V.append(viol('archive', 'archive', pre, 'extraction is not byte-identical to the directory',
                              f'{desc}: {snapshot.diff(want, got)[:4]}; top-level entries {os.listdir("w/x")}'))
            else:
                ww, ok = outcome_of(lambda: same(darr.Array('w/x/a.darr')[:], a[:]) if kind == 'array' else
                                    all(np.array_equal(darr.RaggedArray('w/x/a.darr')[k], a[k]) for k in range(len(a))))
                if ww == 'raises' or not ok:
                    V.append(viol('archive', 'archive', pre, 'extracted array does not open as an equal array', desc))
            rest_b = {k: x for k, x in before.items() if not k.startswith(os.path.basename(apath))}
            rest_a = {k: x for k, x in after.items() if not k.startswith(os.path.basename(apath))}
            if rest_a != rest_b:
                V.append(viol('archive', 'archive', pre, 'archiving changed other files', desc))
    rmtree('w')
    return V, ('archive', kind, ctype, explicit, exists, ow, bool(case.get('userfiles'))), 1


def evaluate(case):
    return {'copy': eval_copy, 'rcopy': eval_rcopy, 'indep': eval_indep, 'archive': eval_archive}[case['sub']](case)


def build_cases(tier):
    q = tier == 'quick'
    cases = []
    cases += product({'sub': ['copy'], 'src': SRC_Q if q else payload.ALL_DTYPES, 'dtype': [None] + payload.NUMTYPES,
                      'shape': [list(s) for s in ([(0,), (5,), (0, 2), (5, 2)] if q else SHAPES)],
                      'chunklen': [None, 2] if q else [None, 1, 2, 'len+1'], 'accessmode': ['r'], 'meta': ['none']})
    cases += product({'sub': ['copy'], 'src': ['<f8', '>i2'], 'dtype': [None, 'float32'],
                      'shape': [list(s) for s in SHAPES], 'chunklen': [None, 1, 2, 'len+1'], 'accessmode': ['r', 'r+'],
                      'meta': ['none', 'nested']})
    cases += product({'sub': ['copy'], 'src': ['<f8', '>i2'], 'dtype': [None, 'float32'], 'shape': [[0], [5], [5, 2]],
                      'chunklen': [None, 2], 'accessmode': ['r'], 'meta': ['none', 'nested'], 'occupant': [True]})
    cases += product({'sub': ['rcopy'], 'src': ['<f8', '>i2', '<c8'] if q else SRC_Q,
                      'dtype': [None, 'float32', 'int64', 'complex128'], 'atom': [[], [2], [2, 1]],
                      'content': list(RAGGED_SRC), 'meta': ['none', 'nested'], 'indextype': ['int64', 'int32']},
                     valid=lambda c: not (np.dtype(c['src']).kind == 'c' and c['dtype'] in ('float32', 'int64') and False))
    sides = [('s', a) for a in ACTIONS] + [('c', a) for a in ACTIONS]
    depth = 2 if q else 3
    for kind in ('array', 'ragged'):
        for L in range(1, depth + 1):
            for hist in itertools.product(sides, repeat=L):
                cases.append({'sub': 'indep', 'kind': kind, 'history': [list(x) for x in hist]})
    cases += product({'sub': ['archive'], 'kind': ['array', 'ragged'], 'ctype': ['xz', 'gz', 'bz2', 'zip'],
                      'explicit': [False, True], 'exists': [False, True], 'overwrite': [False, True]},
                     valid=lambda c: c['ctype'] != 'zip' or (not c['exists'] and not c['overwrite']))
    cases += product({'sub': ['archive'], 'kind': ['array', 'ragged'], 'ctype': ['xz', 'gz', 'bz2'], 'explicit': [False, True],
                      'exists': [False], 'overwrite': [False], 'userfiles': [True]})
    return cases


def run(tier):
    cases = build_cases(tier)
    return run_enum(
        'C15', tier, 'dv.checks.c15:evaluate', cases, chunk=24,
        rule=('Array.copy: source types x all 14 dtype arguments x shapes incl. first axis 0 x chunklen x accessmode x metadata '
              '{none, nested} against src[:].astype(dtype) in dtype.str/shape/bytes on the returned and a fresh handle; '
              'RaggedArray.copy: sources {no subarrays, only empty subarrays, mixed, single} x atoms x dtype arguments x metadata '
              'x index type, subarray by subarray; independence: every history of length <= 2 (quick) / 3 (thorough) over '
              '{assign, append, truncate, metadata set, metadata delete, delete} x {source, copy}: the untouched side keeps a '
              'byte-identical directory and opens equal to its model; archive: {Array, RaggedArray} x {xz, gz, bz2, invalid} x '
              '{default, explicit path} x {absent, existing archive} x overwrite: tarfile extraction byte-identical, opens equal, '
              'refusal without overwrite leaves the existing file byte-identical'),
        assumptions=['NumPy astype as reference for casts (undefined float->int casts of special values kept out of the payload)',
                     'the index type of a ragged copy is not part of the property'])


def replay(rec):
    return replay_case(rec)

"""C20 - DataDir never modifies protected files and round-trips user files (E2)."""
import json
import os
from pathlib import Path, PurePosixPath

import numpy as np

from .. import snapshot
from ..common import import_darr, outcome_of, exc_class, rmtree
from ..engines.enum import product, run_enum, replay_case
from ..sys_array import viol
from ..sys_meta import roundtrip, jeq

METHODS = ['write_txt', 'write_jsonfile', 'write_jsondict', 'update_jsondict', 'delete_files'] + \
          [f'open_file:{m}' for m in ('w', 'a', 'x', 'r+', 'rb+', 'wb', 'ab', 'w+')]
SPELLINGS = ['str', 'Path', './x', './/x', 'x/', 'sub/../x', '../dir/x', 'abs', 'PurePosixPath', 'abs-Path']
ARRAY_TARGETS = ['arrayvalues.bin', 'arraydescription.json', 'README.txt', 'metadata.json', 'metadata.json(absent)']
RAGGED_TARGETS = ['values', 'indices', 'README.txt', 'metadata.json', 'arraydescription.json',
                  'values/arrayvalues.bin', 'values/arraydescription.json', 'values/README.txt',
                  'indices/arrayvalues.bin', 'indices/arraydescription.json', 'indices/README.txt',
                  'values/newfile.txt']


def build(kind, with_meta):
    darr = import_darr()
    rmtree('dir.darr')
    meta = {'k': 1} if with_meta else None
    if kind == 'array':
        h = darr.asarray('dir.darr', np.arange(4, dtype='<i2'), metadata=meta, accessmode='r+')
    else:
        h = darr.asraggedarray('dir.darr', [[1, 2], [3]], metadata=meta, accessmode='r+')
    os.makedirs('dir.darr/sub', exist_ok=True)       # a user's own sub-directory (for the detour spelling)
    return h


def spell(target, how):
    """Return the object passed as file name, or None when the spelling does not apply."""
    isdir = target in ('values', 'indices')
    if how == 'str':
        return target
    if how == 'Path':
        return Path(target)
    if how == './x':
        return './' + target
    if how == './/x':
        return './/' + target.replace('/', '//')
    if how == 'x/':
        return target + '/' if isdir else None
    if how == 'sub/../x':
        return 'sub/../' + target
    if how == '../dir/x':
        return '../dir.darr/' + target
    if how == 'abs':
        return os.path.join(os.getcwd(), 'dir.darr', target)
    if how == 'abs-Path':
        return Path(os.getcwd()) / 'dir.darr' / target
    if how == 'PurePosixPath':
        return PurePosixPath(target)
    raise KeyError(how)


def invoke(dd, method, name, overwrite):
    if method == 'write_txt':
        return lambda: dd.write_txt(name, 'overwritten by user\n', overwrite=overwrite)
    if method == 'write_jsonfile':
        return lambda: dd.write_jsonfile(name, [1, 2, 3], overwrite=overwrite)
    if method == 'write_jsondict':
        return lambda: dd.write_jsondict(name, {'x': 1}, overwrite=overwrite)
    if method == 'update_jsondict':
        return lambda: dd.update_jsondict(name, {'shape': [99], 'x': 1})
    if method == 'delete_files':
        return lambda: dd.delete_files([name])
    mode = method.split(':')[1]

    def opener():
        with dd.open_file(name, mode) as f:
            if 'r' not in mode or '+' in mode:
                f.write(b'zz' if 'b' in mode else 'zz')
    return opener


def eval_protected(case):
    kind, target, how, method, ow = case['kind'], case['target'], case['spelling'], case['method'], case['overwrite']
    absent = target.endswith('(absent)')
    tname = target.replace('(absent)', '')
    name = spell(tname, how)
    if name is None:
        return [], None, 0
    h = build(kind, with_meta=not absent)
    dd = h.datadir
    before = snapshot.snap('dir.darr')
    w, v = outcome_of(invoke(dd, method, name, ow))
    after = snapshot.snap('dir.darr')
    V = []
    changed = after != before
    if w == 'returns' or not isinstance(v, OSError) or changed:
        sym = ('protected file modified' if changed else
               ('call accepted' if w == 'returns' else f'raises {exc_class(v)} not OSError'))
        V.append(viol('protect', method.split(':')[0], f'{kind},spelling={how}', sym,
                      f'{kind}.datadir.{method}({name!r}, overwrite={ow}) on protected {tname!r}: '
                      f'{"returned" if w == "returns" else repr(v)[:80]}; changes: {snapshot.diff(before, after)[:3]}',
                      target=('dir' if tname in ('values', 'indices') else ('nested' if '/' in tname else 'top'))))
    rmtree('dir.darr')
    return V, ('protected', kind, how, method, changed, w), 1


DIR_NAMES = {'array': ['.', './', '../dir.darr', 'sub/..', 'abs-dir', 'Path(.)'],
             'ragged': ['.', './', '../dir.darr', 'values/..', 'indices/../', 'abs-dir', 'Path(.)']}


def eval_arraydir(case):
    """A name that resolves to the array directory itself (which CONTAINS the protected files)."""
    kind, how, method, ow = case['kind'], case['name'], case['method'], case['overwrite']
    h = build(kind, with_meta=True)
    dd = h.datadir
    name = {'abs-dir': os.path.join(os.getcwd(), 'dir.darr'), 'Path(.)': Path('.')}.get(how, how)
    before = snapshot.snap('dir.darr')
    w, v = outcome_of(invoke(dd, method, name, ow))
    after = snapshot.snap('dir.darr')
    V = []
    if w == 'returns' or not isinstance(v, OSError) or after != before:
        sym = 'array files removed or modified' if after != before else \
            ('call accepted' if w == 'returns' else f'raises {exc_class(v)} not OSError')
        V.append(viol('protect', method.split(':')[0], f'{kind},array directory', sym,
                      f'{kind}.datadir.{method}({name!r}) - a name for the array directory itself: '
                      f'{"returned" if w == "returns" else repr(v)[:80]}; changes: {snapshot.diff(before, after)[:4]}'))
    rmtree('dir.darr')
    return V, ('arraydir', kind, how, method, w), 1


def eval_symlinked(case):
    """The data file (or, for a ragged array, the values directory) lives elsewhere and is symlinked into the array."""
    kind, target, how, method, ow = case['kind'], case['target'], case['spelling'], case['method'], case['overwrite']
    name = spell(target, how)
    if name is None:
        return [], None, 0
    h = build(kind, with_meta=True)
    rmtree('elsewhere')
    os.makedirs('elsewhere')
    moved = 'arrayvalues.bin' if kind == 'array' else 'values'
    os.rename(os.path.join('dir.darr', moved), os.path.join('elsewhere', moved))
    os.symlink(os.path.join(os.getcwd(), 'elsewhere', moved), os.path.join('dir.darr', moved))
    darr = import_darr()
    h = (darr.Array if kind == 'array' else darr.RaggedArray)('dir.darr', accessmode='r+')
    dd = h.datadir
    before = (snapshot.snap('dir.darr'), snapshot.snap('elsewhere'))
    w, v = outcome_of(invoke(dd, method, name, ow))
    after = (snapshot.snap('dir.darr'), snapshot.snap('elsewhere'))
    V = []
    if w == 'returns' or not isinstance(v, OSError) or after != before:
        sym = 'protected file modified' if after != before else ('call accepted' if w == 'returns' else f'raises {exc_class(v)} not OSError')
        V.append(viol('protect', method.split(':')[0], f'{kind},relocated and symlinked', sym,
                      f'{kind}.datadir.{method}({name!r}) with {moved} relocated and symlinked: '
                      f'{"returned" if w == "returns" else repr(v)[:80]}; changes: '
                      f'{(snapshot.diff(before[0], after[0]) + snapshot.diff(before[1], after[1]))[:4]}'))
    rmtree('dir.darr')
    rmtree('elsewhere')
    return V, ('symlinked', kind, target, how, method, w), 1


def eval_protected_list(case):
    """delete_files with several names, one of them protected: refused as a whole."""
    kind, target, order = case['kind'], case['target'], case['order']
    h = build(kind, True)
    dd = h.datadir
    dd.write_txt('notes.txt', 'user notes')
    dd.write_txt('more.txt', 'more user notes')
    names = {'user-first': ['notes.txt', target, 'more.txt'], 'protected-first': [target, 'notes.txt'],
             'protected-last': ['notes.txt', 'more.txt', target]}[order]
    before = snapshot.snap('dir.darr')
    w, v = outcome_of(lambda: dd.delete_files(names))
    after = snapshot.snap('dir.darr')
    V = []
    if w == 'returns' or not isinstance(v, OSError) or after != before:
        V.append(viol('protect', 'delete_files', f'{kind},list,{order}',
                      'refused call changed the directory' if after != before else 'call accepted',
                      f'{kind}.datadir.delete_files({names}): {"returned" if w == "returns" else repr(v)[:60]}; '
                      f'changes {snapshot.diff(before, after)[:3]}'))
    rmtree('dir.darr')
    return V, ('protected-list', kind, order), 1


def eval_read_allowed(case):
    h = build(case['kind'], True)
    def rd():
        with h.datadir.open_file(case['target'], 'r') as f:
            return f.read()
    w, v = outcome_of(rd)
    V = []
    if w == 'raises':
        V.append(viol('protect', 'open_file', 'mode r', 'plain read refused', f'open_file({case["target"]!r}, "r"): {v!r}'))
    rmtree('dir.darr')
    return V, ('read', case['kind']), 1


USER_DICTS = {
    'simple': {'a': 1, 'b': [1, 2.5, None, True], 'c': {'d': 'é\U0001F600'}},
    'numpy': {'i': np.int32(5), 'f': np.float64(2.5), 'arr': np.arange(3), 'nested': [np.int8(1)]},
    'empty': {},
}
USER_TEXTS = {'ascii': 'plain text\nsecond line\n', 'unicode': 'é ü 漢字 \U0001F600\n', 'empty': ''}


def eval_user(case):
    kind, name, content, ow, existing = case['kind'], case['name'], case['content'], case['overwrite'], case['existing']
    h = build(kind, True)
    dd = h.datadir
    V = []
    isjson = name.endswith('.json')
    if isjson:
        d = USER_DICTS[content]
        write = lambda data, o: dd.write_jsondict(name, data, overwrite=o)
        read = lambda: dd.read_jsondict(name)
        first, second = {'first': 1}, d
        eq = lambda got, want: jeq(got, roundtrip(want))
    else:
        t = USER_TEXTS[content]
        write = lambda data, o: dd.write_txt(name, data, overwrite=o)
        # read_txt opens with the locale's default encoding; the files are written as UTF-8
        read = lambda: open(os.path.join('dir.darr', name), encoding='utf-8').read()
        first, second = 'first version\n', t
        eq = lambda got, want: got == want
    protected_before = {k: v for k, v in snapshot.snap('dir.darr').items() if not k.startswith(name)}
    if existing:
        write(first, False)
    w, v = outcome_of(lambda: write(second, ow))
    if existing and not ow:
        if w == 'returns' or not eq(read(), first):
            V.append(viol('userfile', 'write', f'{"json" if isjson else "txt"},existing,overwrite=False',
                          'existing user file replaced without overwrite=True',
                          f'second write of {name!r} without overwrite: {w}; content kept: {eq(read(), first)}'))
    else:
        if w == 'raises':
            V.append(viol('userfile', 'write', f'{"json" if isjson else "txt"}', f'write raises {exc_class(v)}',
                          f'write of user file {name!r} ({content}): {v!r}'))
        else:
            got = outcome_of(read)
            if got[0] == 'raises' or not eq(got[1], second):
                V.append(viol('userfile', 'roundtrip', f'{"json" if isjson else "txt"}', 'content does not round-trip',
                              f'user file {name!r} ({content}) read back as {got[1]!r:.80}'))
            if not isjson:
                got2 = outcome_of(lambda: dd.read_txt(name))
                if got2[0] == 'returns' and got2[1] != second and second.isascii():
                    V.append(viol('userfile', 'roundtrip', 'txt', 'read_txt differs', f'{got2[1]!r:.60}'))
    # delete_files removes exactly the named files
    other = 'keepme.txt'
    dd.write_txt(other, 'keep', overwrite=True)
    w, v = outcome_of(lambda: dd.delete_files([name]))
    now = snapshot.snap('dir.darr')
    still = {k: v for k, v in now.items() if k not in (other,)}
    if w == 'raises' or name in now or other not in now or still != protected_before:
        V.append(viol('userfile', 'delete_files', 'user file', 'did not remove exactly the named file',
                      f'delete_files([{name!r}]): {w}; left: {sorted(set(now) - set(protected_before))}, '
                      f'lost: {sorted(set(protected_before) - set(now))}'))
    # a longer file replaced (overwrite=True) by a shorter text must read back as the shorter text
    dd.write_txt('shrink.txt', 'a rather long first version of the text\n' * 3, overwrite=True)
    dd.write_txt('shrink.txt', 'short\n', overwrite=True)
    w, v = outcome_of(lambda: dd.read_txt('shrink.txt'))
    if w == 'raises' or v != 'short\n':
        V.append(viol('userfile', 'roundtrip', 'txt', 'overwritten text keeps a tail of the old content',
                      f'write_txt(long) then write_txt("short", overwrite=True) reads back {v!r:.60}'))
    dd.write_jsondict('shrink.json', {'key': 'x' * 80, 'other': list(range(20))}, overwrite=True)
    dd.write_jsondict('shrink.json', {'k': 1}, overwrite=True)
    w, v = outcome_of(lambda: dd.read_jsondict('shrink.json'))
    if w == 'raises' or v != {'k': 1}:
        V.append(viol('userfile', 'roundtrip', 'json', 'overwritten JSON file does not read back',
                      f'write_jsondict(long) then write_jsondict(short, overwrite=True) reads back {v!r:.60}'))
    dd.delete_files(['shrink.txt', 'shrink.json'])
    # ... also when names that do not exist come first in the list (they are skipped, the others still removed)
    for nm in ('x1.txt', 'x2.txt'):
        dd.write_txt(nm, 'x', overwrite=True)
    w, v = outcome_of(lambda: dd.delete_files(['nosuchfile.txt', 'x1.txt', 'nosuch2.txt', 'x2.txt']))
    now = snapshot.snap('dir.darr')
    if w == 'raises' or 'x1.txt' in now or 'x2.txt' in now or other not in now:
        V.append(viol('userfile', 'delete_files', 'list with missing names', 'did not remove exactly the named files',
                      f"delete_files(['nosuchfile.txt', 'x1.txt', 'nosuch2.txt', 'x2.txt']): {w} {v!r:.60}; "
                      f"still there: {[n for n in ('x1.txt', 'x2.txt') if n in now]}"))
    rmtree('dir.darr')
    return V, ('user', kind, isjson, content, ow, existing), 1


def evaluate(case):
    return {'protected': eval_protected, 'read': eval_read_allowed, 'user': eval_user,
            'protected-list': eval_protected_list, 'arraydir': eval_arraydir, 'symlinked': eval_symlinked}[case['sub']](case)


def build_cases(tier):
    cases = []
    cases += product({'sub': ['protected'], 'kind': ['array'], 'target': ARRAY_TARGETS, 'spelling': SPELLINGS,
                      'method': METHODS, 'overwrite': [False, True]},
                     valid=lambda c: c['overwrite'] or c['method'] in ('write_txt', 'write_jsonfile', 'write_jsondict'))
    cases += product({'sub': ['protected'], 'kind': ['ragged'], 'target': RAGGED_TARGETS, 'spelling': SPELLINGS,
                      'method': METHODS, 'overwrite': [False, True]},
                     valid=lambda c: c['overwrite'] or c['method'] in ('write_txt', 'write_jsonfile', 'write_jsondict'))
    cases += product({'sub': ['protected-list'], 'kind': ['array'], 'target': ['arrayvalues.bin', 'README.txt'],
                      'order': ['user-first', 'protected-first', 'protected-last']})
    cases += product({'sub': ['protected-list'], 'kind': ['ragged'], 'target': ['values', 'README.txt', 'indices/arrayvalues.bin'],
                      'order': ['user-first', 'protected-first', 'protected-last']})
    for kind in ('array', 'ragged'):
        cases += product({'sub': ['arraydir'], 'kind': [kind], 'name': DIR_NAMES[kind], 'method': METHODS, 'overwrite': [True]})
    cases += product({'sub': ['symlinked'], 'kind': ['array'], 'target': ['arrayvalues.bin'], 'spelling': ['str', 'Path', './x', 'abs'],
                      'method': METHODS, 'overwrite': [True]})
    cases += product({'sub': ['symlinked'], 'kind': ['ragged'], 'target': ['values', 'values/arrayvalues.bin', 'values/README.txt'],
                      'spelling': ['str', 'Path', './x', 'abs'], 'method': METHODS, 'overwrite': [True]})
    cases += product({'sub': ['read'], 'kind': ['array', 'ragged'], 'target': ['README.txt', 'arraydescription.json']})
    cases += product({'sub': ['user'], 'kind': ['array', 'ragged'], 'name': ['notes.txt', 'é.json', 'sub.json', 'ünï.txt',
                                                                                    # names that merely BEGIN with a protected name are user files
                                                                                    'arrayvalues.bin.sha256.txt', 'README.txt.orig.txt',
                                                                                    'metadata.json.bak.json', 'values_units.txt',
                                                                                    'indices.json'],
                      'content': ['simple', 'numpy', 'empty', 'ascii', 'unicode'], 'overwrite': [False, True],
                      'existing': [False, True]},
                     valid=lambda c: (c['name'].endswith('.json')) == (c['content'] in USER_DICTS))
    return cases


def run(tier):
    cases = build_cases(tier)
    return run_enum(
        'C20', tier, 'dv.checks.c20:evaluate', cases, chunk=64,
        rule=('{Array, RaggedArray}.datadir x 13 calls (write_txt, write_jsonfile, write_jsondict, update_jsondict, delete_files, '
              'open_file in 8 writing modes) x every protected name (Array: 4 files incl. an absent metadata.json; RaggedArray: '
              'values, indices, 3 top-level files, every file beneath values/ and indices/ and a new file beneath values/) x 10 '
              'spellings (str, Path, ./x, .//x, x/, sub/../x, ../dir/x, absolute str and Path, PurePosixPath) x overwrite flag: '
              'OSError and byte-identical snapshot required; plain mode r allowed; user files: 4 names x contents x overwrite x '
              'existing: round-trip, refusal without overwrite, delete_files removes exactly the named file'),
        assumptions=['a recursive byte snapshot of the array directory decides "created, changed or removed"',
                     'symbolic links that point at protected files are not among the spellings'])


def replay(rec):
    return replay_case(rec)

"""C03 - Array histories of append/assign/truncate equal the NumPy model and persist (E1)."""
from .. import payload
from ..graphcheck import replay_graph, run_graphs

FACTORY = 'dv.sys_array:ArraySys'
QUICK_DTYPES = ['<f8', '>i2', '<c8', '|u1']


def configs(tier):
    cfgs = []
    if tier == 'quick':
        for dt in QUICK_DTYPES:
            for trail in ([], [2, 3] if dt in ('>i2', '<c8') else [2]):
                for n0 in (0, 2):
                    cfgs.append({'dtype': dt, 'trail': trail, 'start_len': n0, 'Lmax': 3,
                                 'oracles': ['model']})
    else:
        # every (type, byte order) with two of the three trailing shapes and one of the two start lengths (rotated), so that
        # each trailing shape and each start occurs with every type kind; deeper bounds for four / one configuration(s)
        trails = ([], [2], [2, 3])
        for i, dt in enumerate(payload.ALL_DTYPES):
            for j in (0, 1):
                cfgs.append({'dtype': dt, 'trail': trails[(i + j) % 3], 'start_len': (0, 2)[(i + j) % 2], 'Lmax': 3,
                             'oracles': ['model']})
        for dt, trail, n0 in (('<f8', [], 0), ('>i2', [2], 2), ('<c8', [2], 0), ('|u1', [], 2)):
            cfgs.append({'dtype': dt, 'trail': trail, 'start_len': n0, 'Lmax': 4, 'oracles': ['model']})
        cfgs.append({'dtype': '<f8', 'trail': [], 'start_len': 0, 'Lmax': 5, 'oracles': ['model']})
    # big graphs first
    cfgs.sort(key=lambda c: -c['Lmax'])
    return cfgs


def run(tier):
    return run_graphs(
        'C03', tier, FACTORY, configs(tier), keep={'model'},
        single_outcome_ok=('mode', 'reopen'),
        rule=('state = bytes of every file + generic dump of the live handle; alphabet: append of a same-dtype '
              'row / a 2-row list / another-dtype other-byte-order strided row / zero rows / a scalar, '
              'iterappend of a list, a generator, an empty iterable and iter([zero rows, row]), assignment to '
              'a[0] and a[-1], truncate_array with 8 index forms, 3 rejected appends, mode switches, reopen, '
              'truncate by path; growth disabled at Lmax so the search runs to a fixpoint'),
        assumptions=['NumPy concatenate/astype/slicing as reference model',
                     'payload values are a function of (colour, position, VERIF_SEED); data values outside this '
                     'alphabet are not explored',
                     'random long sequences of the property text are replaced by fixpoint exploration of the '
                     'bounded state space (histories of any length over states with <= Lmax rows)'])


def replay(rec):
    return replay_graph(rec)

"""C08 - README.txt documentation is current after every operation (E1 state invariant)."""
from ..graphcheck import replay_graph
from ..common import NCPU, pmap
from .. import graphcheck

AFACT = 'dv.sys_array:ArraySys'
RFACT = 'dv.sys_ragged:RaggedSys'


def configs(tier):
    arr, rag = [], []
    A = lambda dt, trail, n0, L, feats=('meta', 'recreate', 'copy'): arr.append(
        {'dtype': dt, 'trail': trail, 'start_len': n0, 'Lmax': L, 'oracles': ['readme'], 'features': list(feats)})
    R = lambda dt, atom, it, route, N, feats: rag.append({'dtype': dt, 'atom': atom, 'indextype': it, 'route': route,
                                                          'Nmax': N, 'oracles': ['readme'], 'features': feats})
    if tier == 'quick':
        A('<f8', [], 0, 1)
        A('>i2', [2], 1, 2, ('meta1', 'recreate'))
        R('<f8', [], 'int64', 'create', 7, ['long'])
        R('>i4', [2], 'int32', 'as2', 7, ['long'])
        R('<f8', [2], 'int64', 'create', 2, ['meta'])
        R('<c8', [], 'uint8', 'meta', 3, ['meta'])
    else:
        for dt, trail, n0 in (('<f8', [], 0), ('>i2', [2], 1), ('<c8', [2, 1], 0), ('|u1', [], 2), ('>f4', [3], 0)):
            A(dt, trail, n0, 2)
        for dt, atom, it, route in (('<f8', [], 'int64', 'create'), ('>i4', [2], 'int32', 'as2'),
                                    ('<c16', [2, 1], 'uint8', 'gen'), ('|i1', [], 'int16', 'meta')):
            R(dt, atom, it, route, 8, ['long'])
            R(dt, atom, it, route, 3, ['meta'])
    return arr, rag


RULE = ('every distinct state of Array graphs (append, truncate, assignment, metadata create/change/delete-last/'
        'delete-one-of-two, re-creation with overwrite=True, copy as a side state, reopen) and of RaggedArray graphs '
        'with up to 7-8 subarrays (so that "first five", "and last" and "..." are reached) and with metadata; in each, '
        'README.txt of the array (and of values/ and indices/) must be byte-identical to the text Darr generates from '
        'a fresh handle, labelled lines must state the independently decoded type/byte order/dimensions/subarray '
        'count/lengths, every snippet must be the current readcode() output, metadata.json mentioned iff it exists')


def run(tier):
    arr, rag = configs(tier)
    # two families of graphs, one reporter: run through graphcheck with a combined factory table
    cfgs = [dict(c, _factory=AFACT) for c in arr] + [dict(c, _factory=RFACT) for c in rag]
    return graphcheck.run_graphs('C08', tier, 'dv.checks.c08:make', cfgs, keep={'readme'},
                                 single_outcome_ok=('mode', 'reopen', 'recreate', 'copycheck', 'iterappend'),
                                 rule=RULE,
                                 assumptions=['"the documentation Darr generates for the current on-disk state" is taken '
                                              'to be readcodetxt() of a freshly opened handle',
                                              'semantic line checks are skipped when a label is not found (rewording is not an alarm)'])


def make(cfg):
    import importlib
    mod, name = cfg['_factory'].split(':')
    return getattr(importlib.import_module(mod), name)(cfg)


def replay(rec):
    return replay_graph(rec)

"""C05 - RaggedArray directory stays structurally well-formed and self-describing (E1 state invariant)."""
from ..graphcheck import replay_graph, run_graphs
from . import c04


def run(tier):
    cfgs = c04.configs(tier, oracles=('format',))
    if tier == 'thorough':
        # the structural invariant does not depend on the value type beyond its width: one type per width
        keep_dt = {'<f8', '>i4', '|u1', '<c16', '>f2'}
        cfgs = [c for c in cfgs if c['dtype'] in keep_dt]
    return run_graphs('C05', tier, c04.FACTORY, cfgs, keep={'format'},
                      single_outcome_ok=('mode', 'reopen'),
                      rule=c04.RULE + '; in every distinct state the directory is decoded by a reader that shares no '
                      'code with Darr: values/indices well-formed arrays, index contiguity, top-level len/size/atom/'
                      'numtype/darrobject, decoded subarrays == model == fresh RaggedArray',
                      assumptions=['the independent ragged decoder implements the documented format'] + c04.ASSUME)


def replay(rec):
    return replay_graph(rec)

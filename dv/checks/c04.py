"""C04 - RaggedArray histories equal a list-of-arrays model and persist (E1)."""
from .. import payload
from ..graphcheck import replay_graph, run_graphs

FACTORY = 'dv.sys_ragged:RaggedSys'
INDEXTYPES = ['int8', 'uint8', 'int16', 'uint16', 'int32', 'uint32', 'int64']
ROUTES = ['create', 'as2', 'gen', 'meta', 'asE']


def configs(tier, oracles=('model',)):
    cfgs = []

    def add(dt, atom, it, route, nmax, features=()):
        cfgs.append({'dtype': dt, 'atom': atom, 'indextype': it, 'route': route, 'Nmax': nmax,
                     'oracles': list(oracles), 'features': list(features)})
    if tier == 'quick':
        sel = [('<f8', [], 'int64', 'create'), ('>i4', [2], 'uint8', 'as2'), ('<f8', [2, 1], 'int32', 'gen'),
               ('>i4', [], 'int32', 'meta'), ('|u1', [2, 1], 'uint8', 'as2'),
               ('<c8', [2], 'int16', 'asE')]
        for dt, atom, it, route in sel:
            add(dt, atom, it, route, 3)
        add('<i2', [], 'int8', 'create', 3, ['big'])      # index overflow of a small index type within reach
        add('<f8', [2, 3], 'int64', 'asS', 2)             # created from a strided (non-contiguous) first subarray
    else:
        # every (value type, byte order) with two (atom, index type, route) combinations, rotated so that every atom, index
        # type and route occurs with every type kind; and the full atom x index type x route table for two value types
        atoms = ([], [2], [2, 1])
        i = 0
        for dt in payload.ALL_DTYPES:
            for j in (0, 1):
                add(dt, atoms[(i + j) % 3], INDEXTYPES[(2 * i + j) % 7], ROUTES[(i + j) % 5], 3)
            i += 1
        k = 0
        for dt in ('<f8', '>i4'):
            for atom in atoms:
                for it in INDEXTYPES:
                    add(dt, atom, it, ROUTES[k % 5], 3)
                    k += 1
        for dt, atom, it, route in [('<f8', [], 'int64', 'create'), ('>i4', [2], 'uint8', 'as2')]:
            add(dt, atom, it, route, 5)
        add('<f8', [2, 3], 'int64', 'asS', 3)
        add('>i2', [2], 'int32', 'asS', 3)
        for dt, atom, it, route in [('<i2', [], 'int8', 'create'), ('|u1', [2], 'uint8', 'as2'), ('<f4', [], 'int8', 'gen')]:
            add(dt, atom, it, route, 3, ['big'])
    cfgs.sort(key=lambda c: -c['Nmax'])
    return cfgs


RULE = ('state = bytes of every file of the ragged directory + generic dump of the live RaggedArray (incl. both '
        'sub-Arrays); alphabet: append of a 1-row ndarray / 2-row list / zero-length subarray / other-dtype strided '
        'row, iterappend of [1,0,2]-row items, of a generator and of an empty iterable, truncate_raggedarray with 6 '
        'index forms and by path, 3 rejected appends, mode switches, reopen; growth disabled at Nmax subarrays')
ASSUME = ['list of NumPy arrays as reference model (each item np.asarray(item, dtype))',
          'payload values are a function of (colour, position, VERIF_SEED)',
          'random long sequences replaced by fixpoint exploration of the bounded state space']


def run(tier):
    return run_graphs('C04', tier, FACTORY, configs(tier), keep={'model'},
                      single_outcome_ok=('mode', 'reopen'), rule=RULE, assumptions=ASSUME)


def replay(rec):
    return replay_graph(rec)

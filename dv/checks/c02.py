"""C02 - On-disk format is self-describing (E1 state invariant + exhaustive type table)."""
import json
import os

import numpy as np

from .. import decoder, payload
from ..common import fresh_dir, import_darr, outcome_of, rmtree, exc_class
from ..graphcheck import replay_graph, run_graphs

FACTORY = 'dv.sys_array:ArraySys'
FEATURES = ['meta1', 'recreate']


def configs(tier):
    cfgs = []
    if tier == 'quick':
        sel = [('<f8', [], 0), ('>i2', [2, 3], 0), ('<c8', [2], 2), ('|u1', [], 2)]
        for dt, trail, n0 in sel:
            cfgs.append({'dtype': dt, 'trail': trail, 'start_len': n0, 'Lmax': 2,
                         'oracles': ['format'], 'features': FEATURES})
    else:
        for i, dt in enumerate(payload.ALL_DTYPES):
            for trail in ([], [2] if i % 2 else [2, 3]):
                cfgs.append({'dtype': dt, 'trail': trail, 'start_len': 0, 'Lmax': 2,
                             'oracles': ['format'], 'features': FEATURES})
        for dt, trail, n0 in (('<f8', [], 0), ('>i2', [2], 2)):
            cfgs.append({'dtype': dt, 'trail': trail, 'start_len': n0, 'Lmax': 3,
                         'oracles': ['format'], 'features': FEATURES})
    cfgs.sort(key=lambda c: -c['Lmax'])
    return cfgs


# --------------------------------------------------------------------------- type table
def table_cases():
    for dts in payload.ALL_DTYPES:
        for shape in ((4,), (2, 3), (2, 1, 3)):
            yield dts, shape


def run_table():
    """13 types x 2 byte orders x {1-D,2-D,3-D}: Darr writes / independent decoder reads, and the
    reverse (hand-made directory by the documented conventions / Darr reads)."""
    darr = import_darr()
    viols, n = [], 0
    d = fresh_dir('tab')
    try:
        for dts, shape in table_cases():
            dt = np.dtype(dts)
            ref = np.concatenate([payload.special_values(dt),
                                  payload.values('A', 64, (), dt)])[:int(np.prod(shape))].reshape(shape)
            ref = ref.astype(dt)
            case = {'dtype': dts, 'shape': list(shape)}
            # Darr writes, decoder reads
            p = os.path.join(d, 'w')
            rmtree(p)
            a = darr.asarray(p, ref)
            n += 1
            try:
                dec, desc = decoder.decode_array(p)
                if not payload.same_bits(dec, ref):
                    viols.append(({'oracle': 'format', 'op': 'table/darr-writes', 'dtype': dts, 'ndim': len(shape),
                                   'symptom': 'decoded differs'},
                                  f'asarray of {dts}{shape}: independent reader gets {dec.dtype.str} {dec.shape} / other bytes',
                                  {'case': case, 'direction': 'darr-writes'}))
            except decoder.FormatError as e:
                viols.append(({'oracle': 'format', 'op': 'table/darr-writes', 'dtype': dts, 'ndim': len(shape),
                               'symptom': 'not decodable'}, f'asarray of {dts}{shape}: {e}',
                              {'case': case, 'direction': 'darr-writes'}))
            # hand-made directory, Darr reads
            p2 = os.path.join(d, 'r')
            rmtree(p2)
            os.makedirs(p2)
            ref.tofile(os.path.join(p2, 'arrayvalues.bin'))
            with open(os.path.join(p2, 'arraydescription.json'), 'w') as f:
                json.dump({'numtype': dt.name, 'byteorder': 'big' if dts[0] == '>' else 'little',
                           'shape': list(shape), 'arrayorder': 'C', 'darrversion': darr.__version__,
                           'darrobject': 'Array'}, f)
            n += 1
            what, val = outcome_of(lambda: darr.Array(p2)[:])
            if what == 'raises' or not payload.same_bits(val, ref):
                viols.append(({'oracle': 'format', 'op': 'table/darr-reads', 'dtype': dts, 'ndim': len(shape),
                               'symptom': 'Darr reads hand-made directory differently'},
                              f'hand-made {dts}{shape} directory: Darr gives '
                              f'{exc_class(val) if what == "raises" else (val.dtype.str, val.shape)}',
                              {'case': case, 'direction': 'darr-reads'}))
    finally:
        rmtree(d)
    return viols, n


def run(tier):
    tviol, tn = run_table()
    return run_graphs(
        'C02', tier, FACTORY, configs(tier), keep={'format'},
        single_outcome_ok=('mode', 'reopen', 'recreate'),
        rule=('every distinct state of Array graphs (C03 alphabet + metadata set/change/delete + asarray(overwrite=True) '
              're-creation with another dtype/shape, with metadata, with zero rows) is decoded by a reader that shares '
              'no code with Darr; decoded dtype/shape/bytes must equal the model and a fresh Darr handle'),
        assumptions=['the independent decoder implements docs/design.rst and the README format text',
                     'NumPy frombuffer/reshape as the meaning of "raw values in C order"'],
        extra_cov={'type_table_cases': tn, 'type_table': '24 (type, byte order) pairs x {1-D,2-D,3-D}, both directions'},
        pre_violations=tviol)


def replay(rec):
    if 'case' in rec:
        v, _ = run_table()
        hits = [x for x in v if x[2]['case'] == rec['case'] and x[2]['direction'] == rec['direction']]
        for s, w, _r in hits:
            print('violation:', w)
        return 1 if hits else 0
    return replay_graph(rec)

"""C16 - Deletion and creation never destroy data that is not theirs to destroy (E2)."""
import os
from pathlib import Path

import numpy as np

from .. import snapshot
from ..common import import_darr, outcome_of, exc_class, rmtree
from ..engines.enum import product, run_enum, replay_case
from ..sys_array import viol

FOREIGN = ['file', 'nesteddir', 'symfile', 'symdir', 'dangling', 'dir-named-README.txt', 'dir-named-metadata.json']
# a regular file called arrayvalues.bin is no part of a RAGGED array's top level: foreign there
FOREIGN_RAGGED_TOP = ['file-named-arrayvalues.bin']
ROOT = 'root'
T = os.path.join(ROOT, 't.darr')


def setup_root():
    rmtree(ROOT)
    os.makedirs(os.path.join(ROOT, 'outside', 'dir'))
    with open(os.path.join(ROOT, 'outside', 'file.txt'), 'w') as f:
        f.write('precious outside file\n')
    with open(os.path.join(ROOT, 'outside', 'dir', 'inner.txt'), 'w') as f:
        f.write('precious inner file\n')
    with open(os.path.join(ROOT, 'sibling.txt'), 'w') as f:
        f.write('sibling of the array directory\n')


def make_target(kind, meta=False):
    darr = import_darr()
    if kind == 'array':
        return darr.asarray(T, np.arange(6, dtype='<i4').reshape(3, 2), accessmode='r+',
                            metadata={'k': 1} if meta else None)
    if kind == 'ragged':
        return darr.asraggedarray(T, [[1, 2], [3]], accessmode='r+', metadata={'k': 1} if meta else None)
    if kind == 'plaindir':
        os.makedirs(T)
        with open(os.path.join(T, 'userfile.txt'), 'w') as f:
            f.write('user data\n')
        return None
    if kind == 'file':
        with open(T, 'w') as f:
            f.write('a regular file\n')
        return None
    if kind == 'missing':
        return None
    raise KeyError(kind)


def plant(loc, kind):
    """Put foreign content of the given kind into directory loc; return the planted relative names."""
    out = os.path.abspath(os.path.join(ROOT, 'outside'))
    if kind == 'file':
        with open(os.path.join(loc, 'foreign.txt'), 'w') as f:
            f.write('foreign file\n')
        return ['foreign.txt']
    if kind == 'nesteddir':
        os.makedirs(os.path.join(loc, 'fdir'))
        with open(os.path.join(loc, 'fdir', 'inner.txt'), 'w') as f:
            f.write('foreign nested file\n')
        return ['fdir', 'fdir/inner.txt']
    if kind == 'symfile':
        os.symlink(os.path.join(out, 'file.txt'), os.path.join(loc, 'link'))
        return ['link']
    if kind == 'symdir':
        os.symlink(os.path.join(out, 'dir'), os.path.join(loc, 'linkd'))
        return ['linkd']
    if kind == 'dangling':
        os.symlink('/nonexistent/dv/x', os.path.join(loc, 'dang'))
        return ['dang']
    if kind.startswith('file-named-'):
        name = kind[len('file-named-'):]
        with open(os.path.join(loc, name), 'wb') as f:
            f.write(b'not Darr data: a user file with this name\n')
        return [name]
    if kind.startswith('dir-named-'):
        name = kind[len('dir-named-'):]
        p = os.path.join(loc, name)
        if os.path.isfile(p):
            os.unlink(p)
        os.makedirs(p)
        with open(os.path.join(p, 'inside.txt'), 'w') as f:
            f.write('foreign file in a directory with a Darr file name\n')
        return [name, name + '/inside.txt']
    raise KeyError(kind)


def arg_of(form, handle, path=T):
    return {'object': handle, 'str': str(path), 'Path': Path(path)}[form]


def eval_delete_foreign(case):
    darr = import_darr()
    tkind, loc, fkind, form = case['target'], case['location'], case['foreign'], case['form']
    setup_root()
    h = make_target(tkind, meta=(fkind != 'dir-named-metadata.json'))
    locdir = T if loc == 'top' else os.path.join(T, loc)
    planted = plant(locdir, fkind)
    if form == 'object':
        h = (darr.Array if tkind == 'array' else darr.RaggedArray)(T, accessmode='r+')
    before = snapshot.snap(ROOT)
    fn = darr.delete_array if tkind == 'array' else darr.delete_raggedarray
    w, v = outcome_of(lambda: fn(arg_of(form, h)))
    after = snapshot.snap(ROOT)
    V = []
    rel = lambda n: os.path.relpath(os.path.join(locdir, n), ROOT)
    lost = [n for n in planted if before.get(rel(n)) != after.get(rel(n))]
    outside_changed = [k for k in before if (k.startswith('outside') or k == 'sibling.txt') and before[k] != after.get(k)]
    pre = f'{tkind},{loc},{fkind}'
    if lost or outside_changed:
        V.append(viol('foreign', fn.__name__, pre, 'foreign data removed or modified',
                      f'{fn.__name__}({form}) with foreign {fkind} in {loc}: lost/changed {lost + outside_changed}'))
    if w == 'returns' or not isinstance(v, OSError):
        V.append(viol('foreign', fn.__name__, pre,
                      'did not raise OSError' if w == 'returns' else f'raises {exc_class(v)} not OSError',
                      f'{fn.__name__}({form}) with foreign {fkind} in {loc}: {"returned" if w == "returns" else repr(v)[:100]}'))
    rmtree(ROOT)
    return V, ('delete-foreign', tkind, loc, fkind, exc_class(v) if w == 'raises' else 'returns'), 1


def eval_delete_wrongkind(case):
    darr = import_darr()
    fnname, tkind, form = case['fn'], case['target'], case['form']
    setup_root()
    h = make_target(tkind)
    before = snapshot.snap(ROOT)
    fn = getattr(darr, fnname)
    arg = arg_of(form, h) if form != 'object' else h
    if form == 'object' and h is None:
        rmtree(ROOT)
        return [], None, 0
    w, v = outcome_of(lambda: fn(arg))
    after = snapshot.snap(ROOT)
    V = []
    if w == 'returns' or not isinstance(v, TypeError) or after != before:
        sym = 'something changed' if after != before else ('accepted' if w == 'returns' else f'raises {exc_class(v)} not TypeError')
        V.append(viol('foreign', fnname, f'wrong kind: {tkind}', sym,
                      f'{fnname}({form}) on a {tkind}: {"returned" if w == "returns" else repr(v)[:100]}; '
                      f'changes {snapshot.diff(before, after)[:4]}'))
    rmtree(ROOT)
    return V, ('delete-wrongkind', fnname, tkind), 1


def eval_delete_clean(case):
    darr = import_darr()
    tkind, form, meta = case['target'], case['form'], case['meta']
    setup_root()
    h = make_target(tkind, meta=meta)
    before = snapshot.snap(ROOT)
    fn = darr.delete_array if tkind == 'array' else darr.delete_raggedarray
    w, v = outcome_of(lambda: fn(arg_of(form, h)))
    after = snapshot.snap(ROOT)
    V = []
    rest_before = {k: x for k, x in before.items() if not k.startswith('t.darr')}
    rest_after = {k: x for k, x in after.items() if not k.startswith('t.darr')}
    if w == 'raises' or any(k.startswith('t.darr') for k in after) or rest_before != rest_after:
        V.append(viol('foreign', fn.__name__, f'clean {tkind}', 'delete of a clean array incomplete or collateral damage',
                      f'{fn.__name__}({form}) on a clean {tkind}: {w} {v!r:.80}; remains {[k for k in after if k.startswith("t.darr")][:4]}'))
    rmtree(ROOT)
    return V, ('delete-clean', tkind, form, meta), 1


def eval_delete_stale(case):
    """A handle that outlived its array: the array was deleted by path and the path re-used by something else."""
    darr = import_darr()
    tkind, occ = case['target'], case['occupant']
    setup_root()
    h = make_target(tkind, meta=True)
    (darr.delete_array if tkind == 'array' else darr.delete_raggedarray)(T)
    if occ == 'userdir':           # a user directory that happens to contain files with Darr's file names
        os.makedirs(T)
        for name, txt in (('README.txt', 'my own notes\n'), ('metadata.json', '{"mine": 1}\n'), ('data.csv', '1,2\n')):
            with open(os.path.join(T, name), 'w') as f:
                f.write(txt)
    elif occ == 'otherkind':
        make_target('ragged' if tkind == 'array' else 'array', meta=True)
    elif occ == 'nothing':
        pass
    before = snapshot.snap(ROOT)
    fn = darr.delete_array if tkind == 'array' else darr.delete_raggedarray
    w, v = outcome_of(lambda: fn(h))
    after = snapshot.snap(ROOT)
    V = []
    if w == 'returns' or after != before:
        sym = 'foreign data removed or modified' if after != before else 'did not raise'
        V.append(viol('foreign', fn.__name__, f'stale handle, path now {occ}', sym,
                      f'{fn.__name__}(handle of an array that was deleted by path; the path is now {occ}): '
                      f'{"returned" if w == "returns" else repr(v)[:80]}; changes {snapshot.diff(before, after)[:5]}'))
    rmtree(ROOT)
    return V, ('delete-stale', tkind, occ, exc_class(v) if w == 'raises' else 'returns'), 1


FAILING_CREATORS = ['asarray-genfails', 'asarray-badchunk', 'asraggedarray-genfails']
CREATORS = ['asarray', 'create_array', 'asraggedarray', 'create_raggedarray', 'Array.copy', 'RaggedArray.copy',
            'Array.archive', 'RaggedArray.archive']
OCCUPANTS = ['nothing', 'array-meta', 'ragged', 'array-larger', 'array-smaller', 'plaindir', 'file']


def make_occupant(occ, path):
    darr = import_darr()
    if occ == 'nothing':
        return []
    if occ == 'file':
        with open(path, 'w') as f:
            f.write('a regular file that is in the way\n')
        return ['.']
    if occ == 'plaindir':
        os.makedirs(path)
    elif occ == 'array-meta':
        darr.asarray(path, np.arange(4, dtype='<f8'), metadata={'old': True})
    elif occ == 'ragged':
        darr.asraggedarray(path, [[9.5, 8.5], [7.5]], metadata={'old': True})
    elif occ == 'array-larger':
        darr.asarray(path, np.arange(4000, dtype='<f8'))
    elif occ == 'array-smaller':
        darr.asarray(path, np.arange(1, dtype='|i1'))
    planted = plant(path, 'file') + plant(path, 'symfile') + plant(path, 'nesteddir')
    # foreign content inside a sub-directory that carries a Darr directory name (a former ragged array, or a user folder
    # that happens to be called values); the Array occupants keep a directory without such a folder
    if occ in ('ragged', 'plaindir'):
        sub = os.path.join(path, 'values')
        os.makedirs(sub, exist_ok=True)
        with open(os.path.join(sub, 'usernotes.txt'), 'w') as f:
            f.write('notes kept next to the values\n')
        planted.append('values/usernotes.txt')
    return planted


def eval_create(case):
    darr = import_darr()
    creator, occ, ow = case['creator'], case['occupant'], case['overwrite']
    setup_root()
    src_a = darr.asarray(os.path.join(ROOT, 'src_a.darr'), np.arange(5, dtype='<i2'), metadata={'m': 1})
    src_r = darr.asraggedarray(os.path.join(ROOT, 'src_r.darr'), [[1, 2], [3]], metadata={'m': 1})
    ctype = case.get('ctype', 'xz')
    target = T if 'archive' not in creator else os.path.join(ROOT, f'arch.tar.{ctype}')
    planted = make_occupant(occ, target)
    before = snapshot.snap(ROOT)
    call = None if creator in FAILING_CREATORS else {
        'asarray': lambda: darr.asarray(target, np.arange(3, dtype='<i4'), overwrite=ow),
        'create_array': lambda: darr.create_array(target, shape=(2, 2), overwrite=ow),
        'asraggedarray': lambda: darr.asraggedarray(target, [[1.5], [2.5, 3.5]], overwrite=ow),
        'create_raggedarray': lambda: darr.create_raggedarray(target, atom=(2,), overwrite=ow),
        'Array.copy': lambda: src_a.copy(target, overwrite=ow),
        'RaggedArray.copy': lambda: src_r.copy(target, overwrite=ow),
        'Array.archive': lambda: src_a.archive(target, compressiontype=ctype, overwrite=ow),
        'RaggedArray.archive': lambda: src_r.archive(target, compressiontype=ctype, overwrite=ow),
    }[creator]
    if creator in FAILING_CREATORS:
        def gen(kind):
            yield np.arange(3, dtype='<i4') if 'ragged' not in creator else [1.5, 2.5]
            if kind == 'badchunk':
                yield np.zeros((2, 2), dtype='<i4')
            else:
                raise RuntimeError('data source fails after the first chunk')
        call = {'asarray-genfails': lambda: darr.asarray(target, gen('raise'), overwrite=ow),
                'asarray-badchunk': lambda: darr.asarray(target, gen('badchunk'), overwrite=ow),
                'asraggedarray-genfails': lambda: darr.asraggedarray(target, gen('raise'), overwrite=ow)}[creator]
    w, v = outcome_of(call)
    after = snapshot.snap(ROOT)
    V = []
    pre = f'{creator},occupant={occ},overwrite={ow}'
    trel = os.path.relpath(target, ROOT)
    if occ != 'nothing' and not ow:
        if w == 'returns' or after != before:
            V.append(viol('foreign', creator, f'occupant={occ},overwrite=False',
                          'existing path modified' if after != before else 'did not raise',
                          f'{creator}(overwrite=False) onto existing {occ}: {w}; changes {snapshot.diff(before, after)[:4]}'))
    else:
        # whatever happens, foreign entries and everything outside the target are intact
        foreign = [os.path.normpath(os.path.join(trel, n)) for n in planted if n != '.']
        if occ == 'file' and 'archive' not in creator:
            foreign = [trel]            # the regular file itself is foreign to an array-creating call
        lost = [k for k in foreign if before.get(k) != after.get(k)]
        outside = [k for k in before if not (k == trel or k.startswith(trel + os.sep)) and before[k] != after.get(k)]
        if lost or outside:
            V.append(viol('foreign', creator, f'occupant={occ},overwrite={ow}', 'foreign data removed or modified',
                          f'{creator}(overwrite={ow}) onto {occ}: lost/changed {lost + outside}'))
        if occ == 'nothing' and w == 'raises' and creator not in FAILING_CREATORS:
            V.append(viol('foreign', creator, 'occupant=nothing', f'creation on a free path raises {exc_class(v)}', repr(v)[:120]))
    rmtree(ROOT)
    return V, ('create', creator, occ, ow, w), 1


def evaluate(case):
    return {'delete-foreign': eval_delete_foreign, 'delete-wrongkind': eval_delete_wrongkind,
            'delete-clean': eval_delete_clean, 'create': eval_create, 'delete-stale': eval_delete_stale}[case['sub']](case)


def build_cases():
    cases = []
    cases += product({'sub': ['delete-foreign'], 'target': ['array'], 'location': ['top'], 'foreign': FOREIGN,
                      'form': ['object', 'str', 'Path']})
    cases += product({'sub': ['delete-foreign'], 'target': ['ragged'], 'location': ['top', 'values', 'indices'],
                      'foreign': FOREIGN, 'form': ['object', 'str', 'Path']})
    cases += product({'sub': ['delete-foreign'], 'target': ['ragged'], 'location': ['top'], 'foreign': FOREIGN_RAGGED_TOP,
                      'form': ['object', 'str', 'Path']})
    cases += product({'sub': ['delete-wrongkind'], 'fn': ['delete_array', 'delete_raggedarray'],
                      'target': ['plaindir', 'file', 'missing', 'array', 'ragged'], 'form': ['str', 'Path', 'object']},
                     valid=lambda c: not (c['fn'] == 'delete_array' and c['target'] == 'array')
                     and not (c['fn'] == 'delete_raggedarray' and c['target'] == 'ragged'))
    cases += product({'sub': ['delete-clean'], 'target': ['array', 'ragged'], 'form': ['object', 'str', 'Path'],
                      'meta': [False, True]})
    cases += product({'sub': ['create'], 'creator': CREATORS, 'occupant': OCCUPANTS, 'overwrite': [False, True]})
    cases += product({'sub': ['create'], 'creator': ['Array.archive', 'RaggedArray.archive'], 'occupant': OCCUPANTS,
                      'overwrite': [False, True], 'ctype': ['gz', 'bz2']})
    cases += product({'sub': ['create'], 'creator': FAILING_CREATORS, 'occupant': OCCUPANTS, 'overwrite': [False, True]})
    cases += product({'sub': ['delete-stale'], 'target': ['array', 'ragged'], 'occupant': ['userdir', 'otherkind', 'nothing']})
    return cases


def run(tier):
    return run_enum(
        'C16', tier, 'dv.checks.c16:evaluate', build_cases(), chunk=8,
        rule=('delete_array / delete_raggedarray x foreign content {file, nested directory, symlink to an outside file, to an '
              'outside directory, dangling symlink, a directory named README.txt, a directory named metadata.json} x location '
              '{top, values/, indices/} x call form {object, str, Path}; wrong-kind targets {plain directory, regular file, '
              'missing path, the other array kind}; clean arrays with/without metadata; 8 creating calls (asarray, create_array, '
              'asraggedarray, create_raggedarray, Array.copy, RaggedArray.copy, archive x2) x previous occupant {nothing, Array '
              'with metadata, RaggedArray, larger / smaller Array, plain directory, regular file} (each with a planted foreign '
              'file, symlink and nested directory) x overwrite flag; oracle: lstat-level byte snapshot of the parent directory '
              'incl. outside symlink targets'),
        assumptions=['symlinks that carry a Darr file name are ambiguous between own and foreign and are left out',
                     'left-over Darr files of a previous occupant of the other kind are not foreign data'])


def replay(rec):
    return replay_case(rec)

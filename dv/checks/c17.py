"""C17 - A process crash at any point never makes Darr return wrong data (E4 crash-point enumeration)."""
import collections
import json
import os

import numpy as np

from .. import payload, snapshot
from ..common import fork_map, fresh_dir, import_darr, jdump, outcome_of, rmtree, sha, NCPU
from ..engines import crash, faults
from ..report import HarnessError, Reporter
from ..sys_array import viol

DT = np.dtype('<i4')
META0 = {'a': 1, 'b': 'two'}


# ---------------------------------------------------------------------------------------------
# scenarios
# ---------------------------------------------------------------------------------------------

def scenario_list(tier):
    out = []
    for trail in ((), (2,)):
        for start in (0, 3):
            base = {'kind': 'array', 'trail': list(trail), 'start': start}
            out.append(dict(base, op='append'))
            out.append(dict(base, op='iterappend'))
            out.append(dict(base, op='iterappend-raises'))
            out.append(dict(base, op='iterappend-badshape'))
            out.append(dict(base, op='append-zero'))
            if start:
                out.append(dict(base, op='truncate', to=1))
                out.append(dict(base, op='truncate', to=0))
            for m in ('meta-first', 'meta-change', 'meta-pop-one', 'meta-pop-last', 'meta-setitem', 'meta-del', 'meta-samelen'):
                if trail and start == 0 and tier == 'quick':
                    continue
                out.append(dict(base, op=m))
    for atom in ((), (2,)):
        for start in (0, 3):
            base = {'kind': 'ragged', 'trail': list(atom), 'start': start}
            out.append(dict(base, op='append'))
            out.append(dict(base, op='iterappend'))
            out.append(dict(base, op='iterappend-raises'))
            out.append(dict(base, op='iterappend-badshape'))
            if start:
                out.append(dict(base, op='truncate', to=1))
                out.append(dict(base, op='truncate', to=0))
                out.append(dict(base, op='truncate', to=2))
            for m in ('meta-first', 'meta-change', 'meta-pop-last'):
                if atom and tier == 'quick':
                    continue
                out.append(dict(base, op=m))
    if tier == 'thorough':
        # other element types (1-byte elements: every byte count is a whole number of elements)
        for dt in ('|u1', '>f8'):
            for start in (0, 3):
                for op in ('append', 'iterappend', 'iterappend-raises'):
                    out.append({'kind': 'array', 'trail': [], 'start': start, 'op': op, 'dtype': dt})
            out.append({'kind': 'array', 'trail': [], 'start': 3, 'op': 'truncate', 'to': 1, 'dtype': dt})
            out.append({'kind': 'ragged', 'trail': [], 'start': 3, 'op': 'iterappend', 'dtype': dt})
            out.append({'kind': 'ragged', 'trail': [], 'start': 3, 'op': 'truncate', 'to': 1, 'dtype': dt})
    return out


def chunks_for(sc):
    dt = np.dtype(sc.get('dtype', DT.str))
    tr = tuple(sc['trail'])
    if sc['kind'] == 'array':
        return [payload.values('A', 1, tr, dt), payload.values('B', 2, tr, dt), payload.values('G', 1, tr, dt)]
    return [payload.values('A', 2, tr, dt), np.zeros((0,) + tr, dtype=dt), payload.values('G', 1, tr, dt)]


def start_content(sc):
    dt = np.dtype(sc.get('dtype', DT.str))
    tr = tuple(sc['trail'])
    if sc['kind'] == 'array':
        return payload.values('I', sc['start'], tr, dt)
    if sc['start'] == 0:
        return []
    return [payload.values('I', 2, tr, dt), payload.values('J', 1, tr, dt), payload.values('H', 3, tr, dt)]


def bad_item(sc):
    dt = np.dtype(sc.get('dtype', DT.str))
    tr = tuple(sc['trail'])
    return np.zeros((1,) + tr + (3,), dtype=dt)


def has_meta_at_start(sc):
    return sc['op'] in ('meta-change', 'meta-pop-one', 'meta-pop-last', 'meta-setitem', 'meta-del', 'meta-samelen')


def start_meta(sc):
    if sc['op'] in ('meta-pop-last',):
        return {'a': 1}
    if sc['op'] == 'meta-samelen':
        return {'start': 100, 'stop': 200}
    if has_meta_at_start(sc):
        return dict(META0)
    return None


def build(sc, path):
    """Create the start array; return (handle, fn performing the operation, legit contents list,
    legit metadata list, description of the after-state index in legit)."""
    darr = import_darr()
    dt = np.dtype(sc.get('dtype', DT.str))
    tr = tuple(sc['trail'])
    rmtree(path)
    meta = start_meta(sc)
    orig = start_content(sc)
    if sc['kind'] == 'array':
        if sc['start'] == 0:
            h = darr.create_array(path, shape=(0,) + tr, dtype=dt, accessmode='r+', metadata=meta)
        else:
            h = darr.asarray(path, orig, accessmode='r+', metadata=meta)
    else:
        if sc['start'] == 0:
            h = darr.create_raggedarray(path, atom=tr, dtype=dt, accessmode='r+', metadata=meta)
        else:
            h = darr.asraggedarray(path, orig, accessmode='r+', metadata=meta)
    ch = chunks_for(sc)
    op = sc['op']
    ragged = sc['kind'] == 'ragged'

    def cat(k):
        if ragged:
            return list(orig) + ch[:k]
        return np.concatenate([orig] + ch[:k]).astype(dt) if k else orig
    metas = [meta or {}]
    if op == 'append':
        fn = lambda: h.append(ch[0])
        legit = [cat(0), cat(1)]
        final = 1
    elif op == 'append-zero':
        z = np.zeros((0,) + tr, dtype=dt)
        fn = lambda: h.append(z)
        legit = [cat(0)]
        final = 0
    elif op == 'iterappend':
        fn = lambda: h.iterappend(list(ch))
        legit = [cat(k) for k in range(4)]
        final = 3
    elif op == 'iterappend-raises':
        fn = lambda: h.iterappend(faults.faulty_iter(ch, 2))
        legit = [cat(k) for k in range(3)]
        final = 2
    elif op == 'iterappend-badshape':
        items = [ch[0], bad_item(sc), ch[2]]
        fn = lambda: h.iterappend(items)
        legit = [cat(0), cat(1)]
        final = 1
    elif op == 'truncate':
        to = sc['to']
        if ragged:
            fn = lambda: darr.truncate_raggedarray(h, to)
            legit = [cat(0), list(orig)[:to]]
        else:
            fn = lambda: darr.truncate_array(h, to)
            legit = [cat(0), orig[:to]]
        final = 1
    elif op.startswith('meta-'):
        legit = [cat(0)]
        final = 0
        m0 = dict(meta or {})
        if op == 'meta-first':
            fn = lambda: h.metadata.update({'k': [1, 2.5], 's': 'x'})
            m1 = {'k': [1, 2.5], 's': 'x'}
        elif op == 'meta-change':
            fn = lambda: h.metadata.update({'a': 2, 'c': None})
            m1 = dict(m0, a=2, c=None)
        elif op == 'meta-pop-one':
            fn = lambda: h.metadata.pop('a')
            m1 = {k: v for k, v in m0.items() if k != 'a'}
        elif op == 'meta-pop-last':
            fn = lambda: h.metadata.pop('a')
            m1 = {}
        elif op == 'meta-setitem':
            def fn():
                h.metadata['b'] = 'three'
            m1 = dict(m0, b='three')
        elif op == 'meta-samelen':      # same serialized length, two separated positions change
            fn = lambda: h.metadata.update({'start': 300, 'stop': 400})
            m1 = {'start': 300, 'stop': 400}
        elif op == 'meta-del':
            def fn():
                del h.metadata['b']
            m1 = {k: v for k, v in m0.items() if k != 'b'}
        else:
            raise KeyError(op)
        metas = [m0, m1]
    else:
        raise KeyError(op)
    return h, fn, legit, metas, final


# ---------------------------------------------------------------------------------------------
# observation of a materialised snapshot through a fresh handle
# ---------------------------------------------------------------------------------------------

def content_key(c):
    if isinstance(c, list):
        return ('ragged', tuple((np.asarray(x).dtype.str, np.asarray(x).shape, np.asarray(x).tobytes()) for x in c))
    c = np.asarray(c)
    return ('array', c.dtype.str, c.shape, c.tobytes())


def observe(kind, path, mode='r'):
    """-> (content outcome, metadata outcome); each ('raises', excname) or ('ok', value)"""
    darr = import_darr()
    if kind == 'array':
        def rd():
            a = darr.Array(path, accessmode=mode)
            v = a[:]
            if tuple(a.shape) != v.shape or a.dtype != v.dtype:
                raise RuntimeError('handle attributes disagree with the data read')
            return a, v
    else:
        def rd():
            a = darr.RaggedArray(path, accessmode=mode)
            return a, [a[k] for k in range(len(a))]
    w, v = outcome_of(rd)
    if w == 'raises':
        return ('raises', type(v).__name__), ('raises', 'not opened')
    a, content = v
    mw, mv = outcome_of(lambda: dict(a.metadata))
    return ('ok', content), (('ok', mv) if mw == 'returns' else ('raises', type(mv).__name__))


def followup(kind, path, content, sc):
    """Append once to the array that survived (opened r+) and read it back through a fresh handle; None if correct."""
    darr = import_darr()
    dt = np.dtype(sc.get('dtype', DT.str))
    tr = tuple(sc['trail'])
    extra = payload.values('V1', 2, tr, dt)
    try:
        if kind == 'array':
            a = darr.Array(path, accessmode='r+')
            a.append(extra)
            got = darr.Array(path)[:]
            want = np.concatenate([np.asarray(content), extra]).astype(dt)
            if not payload.same_bits(got, want):
                return f'a fresh handle shows shape {got.shape} / other values than the surviving state followed by the new rows'
        else:
            ra = darr.RaggedArray(path, accessmode='r+')
            ra.append(extra)
            f = darr.RaggedArray(path)
            got = [f[k] for k in range(len(f))]
            want = list(content) + [extra]
            if len(got) != len(want) or not all(payload.same_bits(np.asarray(g), np.asarray(w).astype(dt)) for g, w in zip(got, want)):
                return f'a fresh handle shows {len(got)} subarrays of lengths {[len(g) for g in got]}, expected the surviving ' \
                       f'{len(content)} followed by the new one (or values differ)'
    except Exception as e:  # noqa: BLE001
        return f'fails: {e!r:.120}'
    return None


def evaluate_scenario(sc_tier):
    sc, tier = sc_tier
    wd = fresh_dir('crash')
    old = os.getcwd()
    os.chdir(wd)
    try:
        return _evaluate(sc, tier)
    finally:
        os.chdir(old)
        rmtree(wd)


def _trace(sc, fine):
    path = 'x.darr'
    h, fn, legit, metas, final = build(sc, path)
    tr = crash.Trace(path, fine=fine)
    outcome = tr.run(fn)
    return tr, outcome, legit, metas, final


def _evaluate(sc, tier):
    fine = tier == 'thorough'
    tr, outcome, legit, metas, final = _trace(sc, fine)
    multi = [i for i in range(len(tr.states) - 1) if len(crash.changed_files(tr.states[i][0], tr.states[i + 1][0])) > 1]
    refined = False
    if multi and not fine:
        tr, outcome, legit, metas, final = _trace(sc, True)
        refined = True
        multi = [i for i in range(len(tr.states) - 1)
                 if len(crash.changed_files(tr.states[i][0], tr.states[i + 1][0])) > 1]
    kind = sc['kind']
    legit_keys = [content_key(c) for c in legit]
    meta_keys = [jdump(m) for m in metas]
    V = []
    stats = collections.Counter()
    seen = {}
    first, last = tr.states[0][0], tr.states[-1][0]
    scname = scenario_name(sc)
    text_step = 1 if tier == 'thorough' else 16
    readers = ('arrayvalues.bin', 'arraydescription.json', 'metadata.json')
    for skind, info, files in crash.enumerate_snapshots(tr.states, text_step=text_step):
        stats['snapshots'] += 1
        stats[skind] += 1
        dg = sha(*[x for k in sorted(files) for x in (k, files[k])])
        if dg in seen:
            stats['duplicates'] += 1
            continue
        seen[dg] = 1
        stats['opened'] += 1
        core = {k: v for k, v in files.items() if os.path.basename(k) in readers}
        if core != {k: v for k, v in first.items() if os.path.basename(k) in readers} and \
           core != {k: v for k, v in last.items() if os.path.basename(k) in readers}:
            stats['intermediate_core_state'] += 1
        where = (f"{info['point'][0]}:{info['point'][1]} ({info['point'][3]})" if skind == 'observed' else
                 f"torn {info['file']} cut to {info['length']} B [{info['torn_kind']}] before {info['point'][0]}:{info['point'][1]}")
        for mode in ('r', 'r+'):            # opening read-write must be as safe as opening read-only
            crash.materialise(files, 'snap.darr')
            (cw, cv), (mw, mv) = observe(kind, 'snap.darr', mode)
            tag = '' if mode == 'r' else '_rw'
            if cw == 'raises':
                stats['open_raises' + tag] += 1
                continue
            ck = content_key(cv)
            if ck not in legit_keys:
                stats['WRONG'] += 1
                desc = describe(cv)
                V.append(viol('crash', sc['op'], f'{kind},start={sc["start"]}', 'opens with contents that are no legitimate state',
                              f'{scname}: crash at {where}: opened with accessmode={mode!r} the array shows {desc}, which is neither '
                              f'the state before, the state after, nor original + whole chunks',
                              snapshot_info=info, kind=skind, mode=mode))
                continue
            idx = legit_keys.index(ck)
            stats[f'opens_as_legit_{idx}' + tag] += 1
            if mode == 'r+' and not sc['op'].startswith('meta-'):
                # the state that survived the crash must be a NORMAL state: work that follows must land correctly
                msg = followup(kind, 'snap.darr', legit[idx], sc)
                stats['followup_appends'] += 1
                if msg:
                    stats['WRONG'] += 1
                    V.append(viol('crash', sc['op'], f'{kind},start={sc["start"]}', 'an append after the crash returns wrong data',
                                  f'{scname}: crash at {where}: the array opens as a legitimate state, but after one more append '
                                  f'{msg}', snapshot_info=info, kind=skind))
            if mw == 'raises':
                stats['metadata_raises' + tag] += 1
            else:
                mk = jdump(mv)
                if mk not in meta_keys:
                    stats['WRONG'] += 1
                    V.append(viol('crash', sc['op'], f'{kind},start={sc["start"]}', 'metadata read back are neither the old nor the new dictionary',
                                  f'{scname}: crash at {where}: metadata read back as {mv!r:.80}, expected one of {metas!r:.120}',
                                  snapshot_info=info, kind=skind))
                else:
                    stats[f'meta_{meta_keys.index(mk)}' + tag] += 1
                    if sc['op'].startswith('meta-') and idx != 0:
                        V.append(viol('crash', sc['op'], f'{kind}', 'contents changed by a metadata operation', f'{scname}: {where}'))
    # the completed operation itself must have produced the expected after-state
    (cw, cv), (mw, mv) = observe(kind, 'x.darr')
    if cw == 'raises' or content_key(cv) != legit_keys[final] or mw == 'raises' or jdump(mv) != meta_keys[-1]:
        V.append(viol('crash', sc['op'], f'{kind},start={sc["start"]}', 'completed operation did not reach the expected state',
                      f'{scname}: after the uninterrupted operation the array is {describe(cv) if cw != "raises" else cv}'))
    expect_raise = sc['op'] in ('iterappend-raises', 'iterappend-badshape')
    if (outcome[0] == 'raises') != expect_raise:
        V.append(viol('crash', sc['op'], f'{kind},start={sc["start"]}', 'unexpected outcome of the uninterrupted operation',
                      f'{scname}: {outcome!r:.200}'))
    return {'scenario': sc, 'violations': V, 'stats': dict(stats), 'states': len(tr.states), 'events': tr.events,
            'refined': refined, 'multi_file_steps': len(multi),
            'points': [list(p) for (_f, p) in tr.states][:40]}


def describe(cv):
    if isinstance(cv, list):
        return f'{len(cv)} subarrays of lengths {[len(x) for x in cv]}'
    return f'shape {cv.shape} dtype {cv.dtype.str} values {cv.ravel()[:6].tolist()}...'


def scenario_name(sc):
    s = f"{sc['kind']} {tuple(sc['trail'])} {sc.get('dtype', DT.str)} start={sc['start']} {sc['op']}"
    if 'to' in sc:
        s += f" to {sc['to']}"
    return s


def run(tier):
    rep = Reporter('C17', tier, 'crash')
    scs = scenario_list(tier)
    results = fork_map(evaluate_scenario, [(s, tier) for s in scs], procs=NCPU)
    tot = collections.Counter()
    per = []
    problems = []
    for r in results:
        sc = r['scenario']
        for (sig, what, detail) in r['violations']:
            rep.violation(sig, what, {'scenario': sc, 'detail': detail})
        st = r['stats']
        tot.update(st)
        tot['distinct_disk_states'] += r['states']
        tot['crash_points'] += r['events']
        tot['multi_file_steps'] += r['multi_file_steps']
        per.append({'scenario': scenario_name(sc), 'crash_points': r['events'], 'distinct_disk_states': r['states'],
                    **{k: v for k, v in st.items()}})
        # vacuity guards per scenario
        name = scenario_name(sc)
        changes = sc['op'] != 'append-zero'
        if changes and not r['violations']:
            if st.get('opens_as_legit_0', 0) < 1:
                problems.append(f'{name}: no snapshot opened as the state before')
            if not sc['op'].startswith('meta-') and sc['op'] != 'iterappend-badshape-none':
                if sum(v for k, v in st.items() if k.startswith('opens_as_legit_') and not k.endswith('_rw') and k != 'opens_as_legit_0') < 1:
                    problems.append(f'{name}: no snapshot opened as a later legitimate state')
                if st.get('open_raises', 0) < 1:
                    problems.append(f'{name}: no snapshot was rejected at open')
            if st.get('torn', 0) < 1 and sc['op'] != 'meta-pop-last':   # (an unlink alone has no torn form)
                problems.append(f'{name}: no torn variant was generated')
    if problems and rep.n_viol == 0:
        raise HarnessError('vacuous crash enumeration: ' + '; '.join(problems[:5]))
    cov = {
        'evaluations': tot['opened'], 'distinct_nontrivial': tot['intermediate_core_state'],
        'rule': ('scenarios {Array 1-D/2-D, RaggedArray atom ()/(2,)} x {empty, 3 rows/subarrays} x {append, append of zero rows, '
                 'iterappend of 3, iterappend whose iterable raises after 2, iterappend with a wrong-shape 2nd item, truncate to 2/1/0, '
                 'metadata first update / changing update / update that keeps the serialized length / setitem / del / pop leaving one / pop of '
                 'the last key}; every snapshot opened with accessmode r AND r+'
                 + (' + 1-byte and big-endian element types' if tier == 'thorough' else '')
                 + '; crash points: every line/return/exception event of frames executing code of the tree under test'
                 + (', every byte-code of those frames and every line of every other Python frame' if tier == 'thorough' else '')
                 + '; at each the directory is read back through the OS; between consecutive distinct states every torn version of '
                   'each changed file (growth: every proper prefix of the added tail; in-place: every split point; text files '
                 + ('every byte' if tier == 'thorough' else 'every 16th byte plus the first and last 8')
                 + '); every distinct snapshot is materialised and opened with a fresh handle; evaluations = distinct snapshots opened; '
                   'non-trivial = snapshots in which descriptor, data or metadata file is in a state that is neither the first nor the last'),
        'samples': [per[0], per[len(per) // 2]],
        'scenarios': len(scs), 'crash_points': tot['crash_points'], 'distinct_disk_states': tot['distinct_disk_states'],
        'snapshots_enumerated': tot['snapshots'], 'observed_states': tot['observed'], 'torn_variants': tot['torn'],
        'duplicate_snapshots_skipped': tot['duplicates'], 'open_raises': tot['open_raises'],
        'opened_as_state_before': tot['opens_as_legit_0'],
        'opened_as_later_legitimate_state': sum(v for k, v in tot.items() if k.startswith('opens_as_legit_') and not k.endswith('_rw')
                                                and k != 'opens_as_legit_0'),
        'opened_rw_as_state_before': tot['opens_as_legit_0_rw'],
        'opened_rw_as_later_legitimate_state': sum(v for k, v in tot.items() if k.startswith('opens_as_legit_') and k.endswith('_rw')
                                                   and k != 'opens_as_legit_0_rw'),
        'open_rw_raises': tot['open_raises_rw'],
        'metadata_unreadable_while_array_opens': tot['metadata_raises'],
        'multi_file_steps': tot['multi_file_steps'],
        'exhaustive': True, 'per_scenario': per,
    }
    return rep.finish('fault_enumeration', cov,
                      assumptions=['process death, not power loss: what the OS holds at the crash point survives',
                                   'a write is torn only in ways the kernel can expose for the observed write pattern (prefix order)',
                                   'README content is not part of this property'])


def replay(rec):
    sc = rec['scenario']
    runs = []
    for _ in range(2):
        r = evaluate_scenario((sc, rec.get('tier', 'quick')))
        runs.append(sorted((jdump(s), w) for (s, w, d) in r['violations']))
    if runs[0] != runs[1]:
        print('REPLAY NOT DETERMINISTIC')
        return 2
    print(f'replay of C17 scenario {scenario_name(sc)}:')
    if not runs[0]:
        print('  no violation observed')
        return 0
    for s, w in runs[0][:10]:
        print(f'  violation: {w}')
    return 1

"""C01 - Array creation round-trips values, dtype, byte order and shape (E2)."""
import os
import warnings

import numpy as np

from .. import decoder, payload
from ..common import import_darr, outcome_of, exc_class, rmtree
from ..engines.enum import product, run_enum, replay_case
from ..sys_array import viol

# the property quantifies over shapes with non-zero trailing axes (first axis possibly 0): zero extents elsewhere are not demanded
SHAPES = [(0,), (1,), (3,), (5,), (0, 2), (1, 1), (2, 3), (3, 1), (5, 2), (0, 2, 3), (2, 1, 3), (3, 2, 2), (2, 2, 1, 2)]
LAYOUTS = ['C', 'F', 'strided', 'negstride', 'transposed', 'broadcast']
CHUNKLENS = [None, 1, 2, 'len-1', 'len', 'len+1']
DTYPE_ARGS = [None] + payload.NUMTYPES
FORMS = ['ndarray', 'list', 'tuple', 'darr']
GEN_PATTERNS = ['ones', 'twos', 'uneven', 'firstempty', 'mixeddtype', 'zerod', 'lists']


def safe_cast(src, tgt):
    """Is casting special values (NaN, inf, extremes) from src to tgt defined?"""
    src, tgt = np.dtype(src), np.dtype(tgt)
    return not (src.kind in 'fc' and tgt.kind in 'iu')


def source_values(shape, dt, special):
    dt = np.dtype(dt)
    n = int(np.prod(shape))
    base = payload.values('A', n, (), dt)
    if special and n:
        sp = payload.special_values(dt)
        k = min(len(sp), n)
        base = base.copy()
        base[:k] = sp[:k]
    return base.reshape(shape)


def layout_of(arr, layout):
    """An array equal to arr (same dtype, shape, values) with the requested memory layout."""
    if layout == 'C':
        out = np.ascontiguousarray(arr)
    elif layout == 'F':
        out = np.asfortranarray(arr)
    elif layout == 'strided':
        big = np.zeros((2 * arr.shape[0],) + arr.shape[1:], dtype=arr.dtype)
        big[::2] = arr
        out = big[::2]
    elif layout == 'negstride':
        out = np.ascontiguousarray(arr[::-1])[::-1]
    elif layout == 'transposed':
        if arr.ndim < 2:
            out = np.ascontiguousarray(arr)
        else:
            out = np.ascontiguousarray(arr.swapaxes(0, -1)).swapaxes(0, -1)
    elif layout == 'broadcast':
        # a broadcast view has equal rows: take the first row of arr, broadcast along axis 0
        if arr.shape[0] == 0:
            out = np.broadcast_to(np.zeros(arr.shape[1:], arr.dtype), arr.shape)
        else:
            out = np.broadcast_to(arr[:1], arr.shape)
    assert out.dtype == arr.dtype and out.shape == arr.shape
    return out


def resolve_chunklen(cl, n):
    if cl == 'len-1':
        return max(n - 1, 1)
    if cl == 'len':
        return max(n, 1)
    if cl == 'len+1':
        return n + 1
    return cl


def check_created(darr, path, a, ref, sig_pre, what_pre, V, case):
    """a (returned handle), fresh handle and independent decoder all show ref exactly."""
    refb = (ref.dtype.str, ref.shape, ref.tobytes())
    for name, get in (('returned handle', lambda: a), ('fresh handle', lambda: darr.Array(path))):
        w, v = outcome_of(lambda: (lambda h: (np.dtype(h.dtype).str, tuple(h.shape), h[:].tobytes(), h[:].dtype.str))(get()))
        if w == 'raises':
            V.append(viol('create', sig_pre, name, f'unreadable:{exc_class(v)}', f'{what_pre}: {name} raises {v!r}'))
        elif (v[0], v[1], v[2]) != refb or v[3] != ref.dtype.str:
            field = 'dtype' if v[0] != refb[0] or v[3] != refb[0] else ('shape' if v[1] != refb[1] else 'values')
            V.append(viol('create', sig_pre, name, f'{field} differs from NumPy reference',
                          f'{what_pre}: {name} shows {v[0]}{v[1]}, reference {refb[0]}{refb[1]}'
                          + ('' if field != 'values' else ' (element bit patterns differ)')))
    try:
        dec, _ = decoder.decode_array(path)
        if (dec.dtype.str, dec.shape, dec.tobytes()) != refb:
            V.append(viol('create', sig_pre, 'decoder', 'files differ from NumPy reference',
                          f'{what_pre}: an independent reader gets {dec.dtype.str}{dec.shape}'))
    except decoder.FormatError as e:
        V.append(viol('create', sig_pre, 'decoder', 'files not decodable', f'{what_pre}: {e}'))


def eval_asarray(case):
    darr = import_darr()
    warnings.simplefilter('ignore')
    src, dtarg, shape = case['src'], case['dtype'], tuple(case['shape'])
    form, layout, cl = case['form'], case.get('layout', 'C'), case['chunklen']
    special = dtarg is None or safe_cast(src, dtarg)
    base = source_values(shape, src, special)
    if layout == 'broadcast':
        base = np.array(layout_of(base, 'broadcast'))      # values of the broadcast view
    V = []
    path = 'out.darr'
    rmtree(path)
    rmtree('src.darr')
    n = shape[0]
    chunklen = resolve_chunklen(cl, n)
    if form == 'ndarray':
        x = layout_of(base, layout)
        ref = np.asarray(x)
    elif form == 'list':
        x = base.tolist()
        ref = np.asarray(x)
    elif form == 'tuple':
        def tup(o):
            return tuple(tup(i) for i in o) if isinstance(o, list) else o
        x = tup(base.tolist())
        ref = np.asarray(x)
    elif form == 'darr':
        ws, x = outcome_of(lambda: darr.asarray('src.darr', base))
        if ws == 'raises':      # creating the Darr source is itself an asarray(ndarray) call
            return [viol('create', 'asarray/ndarray', 'call', f'raises {exc_class(x)}',
                         f'asarray(ndarray {src}{shape}) raises {x!r}', empty=(shape[0] == 0), has_dtype=False)], None, 1
        ref = base
    if dtarg is not None:
        ref = ref.astype(dtarg)
    what_pre = f'asarray({form} {src}{shape} layout={layout}, dtype={dtarg}, chunklen={cl})'
    sig_pre = f'asarray/{form}'
    w, a = outcome_of(lambda: darr.asarray(path, x, dtype=dtarg, chunklen=chunklen, accessmode='r'))
    klass = (form, layout if form == 'ndarray' else '-', len(shape), n == 0, dtarg is not None, cl is not None)
    # A nested sequence with a dtype argument: NumPy offers two readings of "np.asarray(x) cast to dtype": the one-step
    # np.asarray(x, dtype) - which refuses Python ints that do not fit (OverflowError) and converts big ints exactly - and
    # the two-step np.asarray(x).astype(dtype) - which wraps, and goes through float64 for ints beyond int64. Where the two
    # disagree either one is accepted; the property does not say what a refused value leaves behind.
    ambiguous = False
    if dtarg is not None and form in ('list', 'tuple'):
        w1, ref1 = outcome_of(lambda: np.asarray(x, dtype=dtarg))
        if w1 == 'raises':
            ambiguous = (w == 'raises')
        elif not payload.same_bits(ref1, ref) and w == 'returns' and payload.same_bits(a[:], ref1):
            ref = ref1
    if ambiguous:
        klass = ('ambiguous-reference',) + klass
    elif w == 'raises':
        V.append(viol('create', sig_pre, 'call', f'raises {exc_class(a)}',
                      f'{what_pre} raises {a!r}', empty=(n == 0), has_dtype=dtarg is not None))
    else:
        before = len(V)
        check_created(darr, path, a, ref, sig_pre, what_pre, V, case)
        for i in range(before, len(V)):
            V[i][0].update(empty=(n == 0), has_dtype=dtarg is not None)
    rmtree(path)
    rmtree('src.darr')
    return V, klass, 1


def gen_chunks(pattern, dt, trail):
    """list of chunk objects for the generator form"""
    dt = np.dtype(dt)
    A = lambda colour, k: payload.values(colour, k, trail, dt)
    if pattern == 'ones':
        return [A('A', 1), A('B', 1), A('G', 1)]
    if pattern == 'twos':
        return [A('A', 2), A('B', 2)]
    if pattern == 'uneven':
        return [A('A', 3), A('B', 1), A('G', 2)]
    if pattern == 'firstempty':
        return [A('A', 0), A('B', 2)]
    if pattern == 'mixeddtype':
        return [A('A', 2), payload.other_dtype_source('C', 2, trail, dt), A('G', 1).astype(dt.newbyteorder('S'))]
    if pattern == 'zerod':
        return [np.array(3, dtype=dt), np.array(4, dtype=dt)] if not trail else None
    if pattern == 'lists':
        return [A('A', 2).tolist(), A('B', 1).tolist()]
    raise KeyError(pattern)


def eval_gen(case):
    darr = import_darr()
    warnings.simplefilter('ignore')
    dt, dtarg, trail, pattern = case['src'], case['dtype'], tuple(case['trail']), case['pattern']
    chunks = gen_chunks(pattern, dt, trail)
    if chunks is None:
        return [], None, 0
    path = 'out.darr'
    rmtree(path)
    try:
        first = np.asarray(chunks[0], dtype=dtarg)
        fdt = first.dtype
        parts = [np.array(np.asarray(c, dtype=dtarg), ndmin=1).astype(fdt) for c in chunks]
        ref = np.concatenate(parts).astype(fdt)
    except TypeError:       # NumPy itself refuses (list of complex -> real): no reference
        return [], None, 0
    what_pre = f'asarray(generator[{pattern}] {dt} trail={trail}, dtype={dtarg})'
    V = []
    w, a = outcome_of(lambda: darr.asarray(path, (c for c in chunks), dtype=dtarg, chunklen=case.get('chunklen')))
    if w == 'raises':
        V.append(viol('create', 'asarray/generator', 'call', f'raises {exc_class(a)}', f'{what_pre} raises {a!r}',
                      pattern=pattern))
    else:
        check_created(darr, path, a, ref, 'asarray/generator', what_pre, V, case)
        for v in V:
            v[0]['pattern'] = pattern
    rmtree(path)
    return V, ('gen', pattern, len(trail), dtarg is not None), 1


def eval_scalar(case):
    darr = import_darr()
    warnings.simplefilter('ignore')
    val = {'int': 7, 'float': -2.5, 'complex': 1 + 2j, 'npint8': np.int8(-3), 'npf4': np.float32(1.5),
           'npbig': np.dtype('>i2').type(9)}[case['scalar']]
    dtarg = case['dtype']
    ref = np.array(np.asarray(val, dtype=dtarg), ndmin=1)
    path = 'out.darr'
    rmtree(path)
    V = []
    what_pre = f'asarray(scalar {case["scalar"]}, dtype={dtarg})'
    w, a = outcome_of(lambda: darr.asarray(path, val, dtype=dtarg))
    if w == 'raises':
        V.append(viol('create', 'asarray/scalar', 'call', f'raises {exc_class(a)}', f'{what_pre} raises {a!r}'))
    else:
        check_created(darr, path, a, ref, 'asarray/scalar', what_pre, V, case)
    rmtree(path)
    return V, ('scalar', case['scalar'], dtarg is not None), 1


FILLFUNCS = {'i': lambda i: i, '2i': lambda i: 2 * i, 'i12': lambda i: i * [1, 2], 'ii7': lambda i: i * i % 7,
             'ii': lambda i: i * i}       # with 50 000 rows i*i leaves the int32 range


def eval_create(case):
    darr = import_darr()
    warnings.simplefilter('ignore')
    shape, dt, cl, fill, ff = tuple(case['shape']), np.dtype(case['dtype']), case['chunklen'], case['fill'], case['fillfunc']
    n = shape[0]
    chunklen = resolve_chunklen(cl, n)
    path = 'out.darr'
    rmtree(path)
    if ff is not None:
        grid = np.empty(shape, dtype='int64')
        grid.T[:] = np.arange(n, dtype='int64')
        ref = np.empty(shape, dtype=dt)
        ref[...] = FILLFUNCS[ff](grid)
        kw = {'fillfunc': FILLFUNCS[ff]}
    else:
        fv = {'nan': float('nan'), 'negzero': -0.0, 'npzero': np.float32(0.0), 'false': False}.get(fill, fill)
        ref = np.full(shape, 0 if fv is None else fv, dtype=dt)
        kw = {'fill': fv}
    what_pre = f'create_array(shape={shape}, dtype={dt.str}, chunklen={cl}, fill={fill}, fillfunc={ff})'
    V = []
    if case.get('temp'):
        def call():
            with darr.create_temparray(shape=shape, dtype=dt, chunklen=chunklen, report=False, **kw) as t:
                got = (np.dtype(t.dtype).str, tuple(t.shape), t[:].tobytes())
                p = t.path
            return got, os.path.exists(p)
        w, r = outcome_of(call)
        if w == 'raises' or r[0] != (ref.dtype.str, ref.shape, ref.tobytes()) or r[1]:
            V.append(viol('create', 'create_temparray', 'call', 'differs from reference or not removed',
                          f'{what_pre} (temporary): {r!r:.100}'))
        return V, ('temp', len(shape), ff), 1
    w, a = outcome_of(lambda: darr.create_array(path, shape=shape, dtype=dt, chunklen=chunklen, **kw))
    if w == 'raises':
        V.append(viol('create', 'create_array', 'call', f'raises {exc_class(a)}', f'{what_pre} raises {a!r}',
                      empty=(n == 0)))
    else:
        check_created(darr, path, a, ref, 'create_array', what_pre, V, case)
        for v in V:
            v[0].update(fillfunc=ff is not None, chunked=(cl is not None), empty=(n == 0))
    rmtree(path)
    return V, ('create', len(shape), n == 0, ff or ('fill', fill), cl), 1


def reject_inputs():
    return {
        'bool': np.array([True, False]), 'str': np.array(['a', 'b']), 'bytes': np.array([b'a', b'b']),
        'object': np.array([1, 'a', None], dtype=object), 'datetime': np.array(['2020-01-01'], dtype='datetime64[D]'),
        'timedelta': np.array([1, 2], dtype='timedelta64[s]'),
        'structured': np.zeros(2, dtype=[('x', 'i4'), ('y', 'f8')]), 'longdouble': np.zeros(2, dtype=np.longdouble),
    }


def eval_reject(case):
    darr = import_darr()
    warnings.simplefilter('ignore')
    arr = reject_inputs()[case['kind']]
    form = case['form']
    if form == 'ndarray':
        x = arr
    elif form == 'list':
        if case['kind'] in ('structured', 'longdouble', 'datetime', 'timedelta'):
            return [], None, 0
        x = arr.tolist()
    elif form == 'generator':
        x = (c for c in [arr, arr])
    elif form == 'empty':
        x = arr[:0]
    path = 'rej.darr'
    rmtree(path)
    V = []
    w, v = outcome_of(lambda: darr.asarray(path, x))
    created = os.path.lexists(path)
    if w == 'returns' or not isinstance(v, TypeError) or created:
        V.append(viol('create', 'asarray/reject', case['kind'],
                      'unsupported element type accepted' if w == 'returns' else
                      (f'raises {exc_class(v)} not TypeError' if not isinstance(v, TypeError) else 'something created on disk'),
                      f'asarray({form} of {case["kind"]}): {"returned" if w == "returns" else repr(v)}; '
                      f'path exists afterwards: {created}', form=form))
    rmtree(path)
    return V, ('reject', case['kind'], form), 1


def evaluate(case):
    return {'asarray': eval_asarray, 'gen': eval_gen, 'scalar': eval_scalar, 'create': eval_create,
            'reject': eval_reject}[case['sub']](case)


def build_cases(tier):
    cases, subs = [], []
    A = cases.extend
    q = tier == 'quick'
    # S1: all source types x all dtype arguments (ndarray, shape (5,2), chunklen None / 2)
    A(product({'sub': ['asarray'], 'src': payload.ALL_DTYPES, 'dtype': DTYPE_ARGS, 'shape': [[5, 2]],
               'form': ['ndarray'], 'layout': ['C'], 'chunklen': [None, 2]}))
    subs.append('S1: 24 source (type, byte order) x 14 dtype arguments x ndarray (5,2) x chunklen {None,2}')
    # S2: layouts x shapes x chunklens for two (thorough: all) source types
    srcs = ['<f8', '>i2'] if q else payload.ALL_DTYPES
    A(product({'sub': ['asarray'], 'src': srcs, 'dtype': [None], 'shape': [list(s) for s in SHAPES],
               'form': ['ndarray'], 'layout': LAYOUTS, 'chunklen': CHUNKLENS if not q else [None, 1, 2, 'len+1']}))
    subs.append(f'S2: {len(srcs)} source types x 13 shapes x 6 layouts x chunklens (ndarray)')
    # S3: other input forms x shapes x chunklens x dtype arg subset
    A(product({'sub': ['asarray'], 'src': srcs, 'dtype': [None, 'float32', 'int16'] if q else DTYPE_ARGS,
               'shape': [list(s) for s in SHAPES], 'form': ['list', 'tuple', 'darr'], 'chunklen': [None, 2, 'len-1']
               if q else CHUNKLENS}))
    if q:
        A(product({'sub': ['asarray'], 'src': ['<u8', '<i8'], 'dtype': [None], 'shape': [[3], [5], [5, 2]],
                   'form': ['list', 'tuple'], 'chunklen': [None, 1, 2]}))
    subs.append('S3: forms {list, tuple, Darr Array} x 13 shapes x chunklens x dtype arguments (quick: plus 64-bit integer '
                'lists whose extreme values lie beyond the first chunk)')
    # S4: generators of chunks
    A(product({'sub': ['gen'], 'src': ['<f8', '>i2', '<c8', '|u1'] if q else payload.ALL_DTYPES,
               'dtype': [None, 'float32', 'int64'] if q else DTYPE_ARGS, 'trail': [[], [2], [2, 1]],
               'pattern': GEN_PATTERNS, 'chunklen': [None, 2]}))
    subs.append('S4: generator of chunks: 7 chunk patterns x trailing shapes x types x dtype arguments')
    A(product({'sub': ['scalar'], 'scalar': ['int', 'float', 'complex', 'npint8', 'npf4', 'npbig'],
               'dtype': [None, 'float32', 'int16', 'complex64'] if q else [None, 'float32', 'int16', 'complex64', 'float64', 'uint8']},
              valid=lambda c: not (c['scalar'] == 'complex' and c['dtype'] in ('float32', 'int16', 'float64', 'uint8'))
              and not (c['scalar'] in ('float', 'npint8') and c['dtype'] == 'uint8')))
    subs.append('S5: scalars x dtype arguments')
    # S6: create_array
    cdts = ['<f8', '>i2', '<c8', '|u1'] if q else payload.ALL_DTYPES

    def okc(c):
        dt = np.dtype(c['dtype'])
        if c['fill'] is not None and c['fillfunc'] is not None:
            return False
        if c['fill'] in ('nan', 'negzero') and dt.kind not in 'fc':
            return False
        if c['fill'] in (-1.5,) and dt.kind == 'u':
            return False
        if c['chunklen'] is None and c['shape'] not in ([5], [2, 3], [0, 2]):
            return False      # the default chunk length allocates 80 MiB buffers: a few representatives only
        if c['fillfunc'] == 'i12' and (len(c['shape']) < 2 or c['shape'][-1] != 2):
            return False
        return True
    A(product({'sub': ['create'], 'shape': [list(s) for s in SHAPES], 'dtype': cdts, 'chunklen': CHUNKLENS,
               'fill': [None, 0, 7, -1.5, 'nan', 'negzero', 'npzero', 'false'], 'fillfunc': [None, 'i', '2i', 'i12', 'ii7']},
              valid=okc))
    A(product({'sub': ['create'], 'temp': [True], 'shape': [[5], [3, 2]], 'dtype': ['<f8', '>i2'], 'chunklen': [None, 2],
               'fill': [None, 7], 'fillfunc': [None, 'i']}, valid=okc))
    A([{'sub': 'create', 'shape': [50000], 'dtype': dt, 'chunklen': cl, 'fill': None, 'fillfunc': 'ii'}
       for dt in ('<i8', '<f8') for cl in (None, 20000)])
    subs.append(f'S6: create_array/create_temparray: 13 shapes x {len(cdts)} dtypes x 6 chunklens x 8 fills (incl. -0.0, a NumPy zero, False) + 4 fill functions')
    A(product({'sub': ['reject'], 'kind': list(reject_inputs()), 'form': ['ndarray', 'list', 'generator', 'empty']}))
    subs.append('S7: 8 unsupported element types x {ndarray, list, first chunk of a generator, empty ndarray}')
    return cases, subs


def run(tier):
    cases, subs = build_cases(tier)
    return run_enum(
        'C01', tier, 'dv.checks.c01:evaluate', cases, chunk=48, subproducts=subs,
        rule=('complete sub-products (listed) of: source type x byte order x memory layout {C, F, strided, negative stride, '
              'transposed, broadcast view} x 13 shapes (rank 1-4, first axis 0, length-1 axes) x input form {ndarray, list, '
              'tuple, scalar, generator of chunks, Darr Array} x dtype argument x chunklen {None,1,2,len-1,len,len+1} x '
              'fill / fill function; payload carries NaN with payload bits, -0.0, +-inf, subnormals and integer extremes '
              'wherever the cast is defined; oracle: np.asarray(x)[.astype(dtype)] / concatenated chunks / np.full / fillfunc(grid) '
              'compared in dtype.str, shape and bytes through the returned handle, a fresh handle and the independent decoder; '
              'class = (form, layout, rank, empty, dtype given, chunked)'),
        assumptions=['NumPy asarray/astype/concatenate/full as reference',
                     'casts NumPy leaves undefined (NaN/inf/out-of-range float -> integer) are kept out of the payload'])


def replay(rec):
    return replay_case(rec)

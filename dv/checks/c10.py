"""C10 - A failed RaggedArray append leaves exactly the completed subarrays (E3 fault enumeration)."""
import os

import numpy as np

from .. import decoder, payload
from ..common import import_darr, outcome_of, exc_class, rmtree
from ..engines import faults
from ..engines.enum import run_enum, replay_case
from ..sys_array import viol

DT = np.dtype('<f8')
ATOMS = {0: (), 1: (512,), 2: (16, 32)}
FLOOR = 10240           # above every text file Darr rewrites (top-level README ~7.3 KiB)


def item(atom_rank, colour, big):
    """One subarray: 4 KiB of values when big (so that limits land inside it), small otherwise."""
    atom = ATOMS[atom_rank]
    if atom_rank == 0:
        n = 512 if big else 2
    else:
        n = 1
    return payload.values(colour, n, atom, DT)


def start_items(start, atom_rank):
    atom = ATOMS[atom_rank]
    if start == 'none':
        return []
    if start == 'three':
        return [item(atom_rank, c, True) for c in 'IJA']
    if start == 'zeros700':
        return [np.zeros((0,) + atom, dtype=DT)] * 700
    if start == 'near-overflow':
        return [np.arange(100, dtype=DT)]
    raise KeyError(start)


def bad_item(kind, atom_rank):
    atom = ATOMS[atom_rank]
    if kind == 'badatom':
        return np.zeros((1,) + (atom[:-1] + (atom[-1] + 1,) if atom else (3,)), dtype=DT)
    if kind == 'badatom0':
        return np.zeros((0,) + (atom[:-1] + (atom[-1] + 1,) if atom else (3,)), dtype=DT)
    if kind == 'badzero':
        return np.zeros((2,) + atom[:-1] + (0,), dtype=DT)
    if kind == 'badrank':
        return np.zeros((1,) + atom + (1,), dtype=DT)
    if kind == 'unconv':
        return np.full((1,) + atom, 'x', dtype=object).tolist()
    if kind == 'complexlist':
        return np.full((1,) + atom, 1 + 2j, dtype=object).tolist()
    if kind == 'bareatom':         # shaped like ONE atom, without the variable first axis
        return np.zeros(atom, dtype=DT).tolist()
    if kind == 'strnum':
        return '12'
    raise KeyError(kind)


def evaluate(case):
    darr = import_darr()
    start, ar, entry, n, kind, pos = case['start'], case['atom_rank'], case['entry'], case['nitems'], case['kind'], \
        case['position']
    atom = ATOMS[ar]
    itype = case.get('indextype', 'int64')
    path = 'r.darr'
    rmtree(path)
    orig = start_items(start, ar)
    if orig:
        ra = darr.asraggedarray(path, orig, dtype=DT, accessmode='r+', indextype=itype)
    else:
        ra = darr.create_raggedarray(path, atom=atom, dtype=DT, accessmode='r+', indextype=itype)
    big = kind.startswith('rlimit') and start != 'zeros700'
    if start == 'near-overflow':
        goods = [np.arange(k, dtype=DT) for k in case['lengths']]
    elif start == 'zeros700':
        goods = [np.zeros((0,) + atom, dtype=DT) if i % 2 == 0 else item(ar, 'B', False) for i in range(n)]
    else:
        goods = [item(ar, 'ABGH'[i % 4], big) if i != 1 else np.zeros((0,) + atom, dtype=DT) for i in range(n)] \
            if not big else [item(ar, 'ABGH'[i % 4], True) for i in range(n)]
    L = case.get('L')
    if kind == 'rlimit':
        voff = sum(x.nbytes for x in orig)
        ioff = len(orig) * 2 * np.dtype(itype).itemsize
        completed = 0
        for g in goods:
            voff += g.nbytes
            ioff += 2 * np.dtype(itype).itemsize
            if voff <= L and ioff <= L:
                completed += 1
            else:
                break
        if completed == len(goods):
            return [], None, 0
        items = goods
    elif kind == 'overflow':
        tot = sum(len(x) for x in orig)
        info = np.iinfo(itype)
        completed = 0
        for g in goods:
            tot += len(g)
            if tot <= info.max:
                completed += 1
            else:
                break
        if completed == len(goods):
            return [], None, 0
        items = goods
    else:
        completed = pos
        items = None if kind in ('iter-raises', 'iter-valueerror', 'iter-abort') else goods[:pos] + [bad_item(kind, ar)] + goods[pos:]
    if entry == 'append':
        arg = items[0]
        call = lambda: ra.append(arg)
    else:
        if items is None:
            exc = {'iter-raises': faults.IterFault, 'iter-abort': faults.IterAbort}.get(kind, ValueError)
            arg = faults.faulty_iter(goods, pos, exc=exc, as_generator=(entry == 'iterappend-gen'))
        elif entry == 'iterappend-gen':
            arg = (c for c in items)
        else:
            arg = list(items)
        call = lambda: ra.iterappend(arg)
    def outcome(fn):
        try:
            return outcome_of(fn)
        except faults.IterAbort as e:      # not an Exception: arrives like KeyboardInterrupt
            return 'raises', e
    if kind == 'rlimit':
        with faults.file_size_limit(L):
            w, v = outcome(call)
    else:
        w, v = outcome(call)
    expected = list(orig) + goods[:completed]
    V = []
    where = 'first item' if completed == 0 else 'later item'
    kindlabel = {'rlimit': 'write failure', 'overflow': 'index overflow'}.get(kind, kind)
    opname = entry.split('-')[0]
    pre = f'start={start},{where}'
    desc = (f'{entry} of {len(goods)} item(s) onto ragged array [{start}, atom rank {ar}, index {itype}], fault {kind} '
            + (f'at byte limit {L}' if kind == 'rlimit' else f'at position {pos}'))

    def add(sym, msg):
        V.append(viol('faults', opname, pre, sym, f'{desc}: {msg}', kind=kindlabel))

    def eq(subs, want):
        return len(subs) == len(want) and all(payload.same_bits(np.asarray(a), np.asarray(b).astype(DT).reshape(np.asarray(a).shape) if np.asarray(b).size == np.asarray(a).size else b)
                                              for a, b in zip(subs, want))
    if w == 'returns':
        add('call did not raise', 'the call returned normally')
    fw, fresh = outcome_of(lambda: darr.RaggedArray(path))
    if fw == 'raises':
        add('ragged array cannot be opened afterwards', f'{fresh!r:.150}')
    else:
        gw, got = outcome_of(lambda: [fresh[k] for k in range(len(fresh))])
        if gw == 'raises' or not eq(got, expected):
            add('contents are not original + completed subarrays',
                f'fresh handle has {len(fresh)} subarrays, expected {len(expected)} (or values differ): {got!r:.60}')
        lw, lv = outcome_of(lambda: [ra[k] for k in range(len(ra))])
        if lw == 'raises' or gw == 'raises' or not eq(lv, got):
            add('live handle disagrees with a fresh one', f'live has {len(ra) if lw == "returns" else lv!r:.60}')
    try:
        subs, _v, _i, _top = decoder.decode_ragged(path)
        if not eq(subs, expected):
            add('files do not hold original + completed subarrays', f'decoder sees {len(subs)} subarrays')
    except decoder.FormatError as e:
        add('directory not well-formed afterwards', str(e))
    rmtree(path)
    return V, ('fault', start, ar, entry, kind, where, w == 'raises'), 1


def build_cases(tier):
    q = tier == 'quick'
    cases = []
    for start in ('none', 'three'):
        for ar in (0, 1, 2):
            for n in (0, 1, 2, 3):
                for pos in range(0, n + 1):
                    for kind in ('iter-raises', 'iter-valueerror', 'iter-abort', 'badatom', 'badrank', 'unconv', 'badatom0', 'badzero', 'complexlist') + (('bareatom',) if ar else ('strnum',)):
                        for entry in ('iterappend-list', 'iterappend-gen'):
                            if q and entry == 'iterappend-gen' and kind not in ('iter-raises', 'iter-abort', 'badatom'):
                                continue
                            cases.append({'start': start, 'atom_rank': ar, 'entry': entry, 'nitems': n, 'kind': kind,
                                          'position': pos})
            for kind in ('badatom', 'badrank', 'unconv', 'badatom0', 'badzero', 'complexlist') + (('bareatom',) if ar else ('strnum',)):
                cases.append({'start': start, 'atom_rank': ar, 'entry': 'append', 'nitems': 0, 'kind': kind,
                              'position': 0})
    # index overflow with small index types
    for itype in ('int8', 'uint8'):
        mx = np.iinfo(itype).max
        for lengths in ([mx - 100 + 1], [10, mx - 110 + 1], [10, 5, mx], [mx - 100, 1], [0, mx - 100 + 1]):
            for entry in ('iterappend-list', 'append'):
                if entry == 'append' and len(lengths) > 1:
                    continue
                cases.append({'start': 'near-overflow', 'atom_rank': 0, 'entry': entry, 'nitems': len(lengths),
                              'kind': 'overflow', 'position': None, 'indextype': itype, 'lengths': lengths})
    # write failure on the values file
    for start in ('three', 'none'):
        for ar in (0, 1, 2):
            base = (3 if start == 'three' else 0) * 4096
            for n in (1, 2, 3):
                offs = [base + 4096 * k for k in range(n + 1)]
                lo, hi = max(base, FLOOR), offs[-1]
                Ls = faults.boundary_limits(offs[:-1], 8, 4096, lo, hi) if q else list(range(lo, hi, 1))   # thorough: every byte
                for L in Ls:
                    cases.append({'start': start, 'atom_rank': ar, 'entry': 'iterappend-list', 'nitems': n,
                                  'kind': 'rlimit', 'position': None, 'L': L})
                    if n == 1:
                        cases.append({'start': start, 'atom_rank': ar, 'entry': 'append', 'nitems': 1, 'kind': 'rlimit',
                                      'position': None, 'L': L})
    # write failure on the indices file (700 zero-length subarrays: indices 11200 B, values empty)
    for ar in (0, 1):
        for n in (1, 2, 3):
            for d in ([0, 1, 8, 15, 16, 17, 31, 32, 33] if q else range(0, 16 * n)):
                cases.append({'start': 'zeros700', 'atom_rank': ar, 'entry': 'iterappend-list', 'nitems': n,
                              'kind': 'rlimit', 'position': None, 'L': 11200 + d})
                if n == 1:
                    cases.append({'start': 'zeros700', 'atom_rank': ar, 'entry': 'append', 'nitems': 1, 'kind': 'rlimit',
                                  'position': None, 'L': 11200 + d})
    return cases


def run(tier):
    cases = build_cases(tier)
    return run_enum(
        'C10', tier, 'dv.checks.c10:evaluate', cases, chunk=8, level='fault_enumeration', engine='faults',
        rule=('one deviation per execution: start {no subarrays, 3 subarrays of 4 KiB, 700 zero-length subarrays, 100 values with '
              'an 8-bit index type} x atom rank 0..2 x 0..3 items (zero-length ones included) x failure position 0..n x kind '
              '{iterable raises (an Exception, or a BaseException such as KeyboardInterrupt), wrong atom (also zero-length items of a wrong atom and atoms with a zero extent), wrong rank, unconvertible item, index overflow, write failure on the values file, '
              'write failure on the indices file (RLIMIT_FSIZE at enumerated byte offsets)} x entry {append, iterappend(list), '
              'iterappend(generator)}; oracle: raises, RaggedArray opens, independent ragged decoder accepts the directory, '
              'subarrays == original + completed items, live == fresh'),
        assumptions=['limits below the size of the text files Darr rewrites (top-level README ~7.3 KiB) are not explored',
                     'I/O errors other than "file may not grow" are not enumerated'])


def replay(rec):
    return replay_case(rec)

"""C18 - Inconsistent or invalid array descriptions are rejected at open time (E2, differential
against the independent decoder: a mutated directory is a case iff the decoder rejects it)."""
import json
import os
from pathlib import Path

import numpy as np

from .. import decoder, snapshot
from ..common import import_darr, outcome_of, exc_class, rmtree
from ..engines.enum import run_enum, replay_case
from ..sys_array import viol

BASES = {
    'int32-1d': ('array', '<i4', (3,)),
    'f8be-2d': ('array', '>f8', (2, 3)),
    'empty-2d': ('array', '<i2', (0, 2)),
    'uint8-1d': ('array', '|u1', (4,)),
    'int8-2d': ('array', '|i1', (2, 2)),
    'ragged-values': ('ragged', '<f4', None),
    'ragged-indices': ('ragged', '<f4', None),
}
BAD_VALUES = [None, 7, 1.5, True, '', 'x', [], {}, ['x']]
KEYS = ['numtype', 'byteorder', 'shape', 'arrayorder', 'darrversion']
NUMTYPES = list(decoder.NUMTYPES)


def mutation_labels(base):
    """All single-field corruptions (labels only; materialised in `apply`)."""
    out = []
    for k in KEYS:
        out.append(('remove', k, None))
        for i, _ in enumerate(BAD_VALUES):
            out.append(('set', k, i))
    for v in ['int128', 'bool', 'float', 'INT32', 'i4', '<i4']:
        out.append(('setv', 'numtype', v))
    for v in ['Little', 'middle', '<', 'native', 'LITTLE']:
        out.append(('setv', 'byteorder', v))
    for v in ['c', 'K', 'A', 'f']:
        out.append(('setv', 'arrayorder', v))
    for v in ['neg1', 'neg2', 'float', 'str', 'nested', 'int', 'string', 'bool', 'extra', 'extra1', 'missing',
              'firstplus', 'firstminus', 'lastplus', 'lastminus']:
        out.append(('shape', v, None))
    for nt in NUMTYPES:
        out.append(('numtype', nt, None))
    for v in ['missing', 'empty', 'notjson', 'list', 'number', 'string', 'null']:
        out.append(('file', v, None))
    out.append(('fileprefix', None, None))         # expanded per prefix length at run time
    out.append(('data', 'missing', None))
    out.append(('datalen', None, None))            # expanded per length at run time
    return out


def expand(base, labels, descr_len, data_len, itemsize):
    out = []
    for lab in labels:
        if lab[0] == 'fileprefix':
            out += [('fileprefix', k, None) for k in range(1, descr_len)]
        elif lab[0] == 'datalen':
            out += [('datalen', k, None) for k in range(0, data_len + 2 * itemsize + 1) if k != data_len]
        else:
            out.append(lab)
    return out


def shape_mut(shape, how):
    s = list(shape)
    return {
        'neg1': [-1], 'neg2': [-2, -2], 'float': [float(s[0])] + s[1:], 'str': [str(x) for x in s],
        'nested': [[x] for x in s], 'int': 3, 'string': ''.join(str(x) for x in s) or '0', 'bool': [True] + s[1:],
        'extra': s + [2], 'extra1': s + [1], 'missing': s[:-1],
        'firstplus': [s[0] + 1] + s[1:], 'firstminus': [s[0] - 1] + s[1:],
        'lastplus': s[:-1] + [s[-1] + 1], 'lastminus': s[:-1] + [s[-1] - 1],
    }[how]


def build_base(base):
    darr = import_darr()
    kind, dt, shape = BASES[base]
    rmtree('b.darr')
    if kind == 'array':
        n = int(np.prod(shape))
        if shape[0] == 0:
            darr.create_array('b.darr', shape=shape, dtype=dt)
        else:
            darr.asarray('b.darr', (np.arange(n) + 1).astype(dt).reshape(shape))
        return 'b.darr'
    darr.asraggedarray('b.darr', [np.array([1, 2], dt), np.array([3], dt)], dtype=dt, indextype='int32')
    return os.path.join('b.darr', 'values' if base == 'ragged-values' else 'indices')


def apply(sub, lab):
    """Corrupt the array directory `sub` in place."""
    dp = os.path.join(sub, 'arraydescription.json')
    vp = os.path.join(sub, 'arrayvalues.bin')
    with open(dp) as f:
        text = f.read()
    d = json.loads(text)
    kind, a, b = lab
    newtext = None
    if kind == 'remove':
        d.pop(a, None)
    elif kind == 'set':
        d[a] = BAD_VALUES[b]
    elif kind == 'setv':
        d[a] = b if b is not None else a
    elif kind == 'shape':
        d['shape'] = shape_mut(d['shape'], a)
    elif kind == 'numtype':
        d['numtype'] = a
    elif kind == 'file':
        if a == 'missing':
            os.unlink(dp)
            return
        newtext = {'empty': '', 'notjson': '{numtype: int32', 'list': json.dumps([d]), 'number': '7',
                   'string': '"int32"', 'null': 'null'}[a]
    elif kind == 'fileprefix':
        newtext = text[:a]
    elif kind == 'data':
        os.unlink(vp)
        return
    elif kind == 'datalen':
        with open(vp, 'rb') as f:
            raw = f.read()
        with open(vp, 'wb') as f:
            f.write((raw + b'\x01' * (a + 1))[:a])
        return
    if newtext is None:
        newtext = json.dumps(d, indent=4, sort_keys=True)
    with open(dp, 'w') as f:
        f.write(newtext)


def setv_fix(lab):
    # ('setv', key, value) is stored as (kind, key, value)
    return lab


def evaluate(case):
    darr = import_darr()
    base = case['base']
    sub = build_base(base)
    kind = BASES[base][0]
    top = 'b.darr'
    with open(os.path.join(sub, 'arraydescription.json')) as f:
        dlen = len(f.read())
    vlen = os.path.getsize(os.path.join(sub, 'arrayvalues.bin'))
    itemsize = np.dtype(BASES[base][1] if kind == 'array' or base == 'ragged-values' else '<i4').itemsize
    labs = expand(base, [tuple(case['label'])], dlen, vlen, itemsize) if case['label'][0] in ('fileprefix', 'datalen') \
        else [tuple(case['label'])]
    pristine = snapshot.snap(top)
    V, classes, nev = [], set(), 0
    for lab in labs:
        snapshot.restore(top, pristine)
        apply(sub, lab)
        ok, why = decoder.is_valid_array_dir(sub)
        labtxt = '/'.join(str(x) for x in lab if x is not None)
        if ok:
            classes.add(('still-valid', lab[0]))
            continue            # a valid, size-consistent description is not a corruption
        nev += 1
        classes.add(('invalid', lab[0], why.split(' ')[0]))
        mutated = snapshot.snap(top)
        pre = f'{base}'
        openers = [('Array', lambda: darr.Array(sub))]
        if kind == 'ragged':
            openers.append(('RaggedArray', lambda: darr.RaggedArray(top)))
        openers.append(('darr.open', lambda: darr.open(sub if kind == 'array' else top)))
        for name, fn in openers:
            w, v = outcome_of(fn)
            if w == 'returns':
                V.append(viol('reject', name, pre, f'opened despite invalid description ({lab[0]})',
                              f'{name}() opened {base} after corruption {labtxt} (decoder: {why}); '
                              f'it reports shape {getattr(v, "shape", None)} dtype {getattr(v, "dtype", None)}',
                              label=list(lab)))
        # delete / truncate by path: TypeError, nothing changed
        calls = [('delete_array', lambda p: darr.delete_array(p), sub), ('truncate_array', lambda p: darr.truncate_array(p, 1), sub)]
        if kind == 'ragged':
            calls += [('delete_raggedarray', lambda p: darr.delete_raggedarray(p), top),
                      ('truncate_raggedarray', lambda p: darr.truncate_raggedarray(p, 1), top)]
        for cname, fn, target in calls:
            for form in (str, Path):
                snapshot.restore(top, mutated)
                w, v = outcome_of(lambda: fn(form(target)))
                after = snapshot.snap(top)
                if w == 'returns' or not isinstance(v, TypeError) or after != mutated:
                    sym = 'directory changed' if after != mutated else \
                        ('accepted' if w == 'returns' else f'raises {exc_class(v)} not TypeError')
                    V.append(viol('reject', cname, pre, f'{sym} ({lab[0]})',
                                  f'{cname}({form.__name__}) on {base} after corruption {labtxt} (decoder: {why}): '
                                  f'{"returned" if w == "returns" else repr(v)[:80]}; changes {snapshot.diff(mutated, after)[:3]}',
                                  label=list(lab)))
    rmtree(top)
    return V, classes, max(nev, 1)


def run(tier):
    cases = []
    for base in BASES:
        for lab in mutation_labels(base):
            cases.append({'base': base, 'label': list(lab)})
    return run_enum(
        'C18', tier, 'dv.checks.c18:evaluate', cases, chunk=8,
        rule=('bases {1-D int32, 2-D big-endian float64, empty (0,2), values/ and indices/ of a ragged array} x every '
              'single-field corruption: each of the 5 keys removed or set to each of 9 wrong-typed values, 6 unknown numtypes, '
              '5 byte orders, 4 array orders, 15 shape corruptions (negative, float, str, nested, scalar, bool, extra/missing '
              'axis, each extent +-1), numtype swapped for every other type, descriptor missing / empty / not JSON / every '
              'proper prefix of itself / a JSON list, number, string, null, data file missing, data file of every length in '
              '0..size+2*itemsize except the right one; a mutant is a case iff the independent decoder rejects it; then '
              'Array(), RaggedArray(), darr.open() must raise and delete/truncate by str and Path must raise TypeError and '
              'leave a byte-identical directory'),
        assumptions=['dv/decoder.py decides which mutants are invalid (valid, size-consistent mutants such as another item size '
                     'on an empty data file are not corruptions)', 'darrobject is required only by darr.open()'])


def replay(rec):
    return replay_case(rec)

"""C11 - Read-only access mode is enforced for every mutating operation (E1, mode-centric alphabet)."""
from ..graphcheck import replay_graph, run_graphs

FACTORY = 'dv.sys_mode:ModeSys'


def configs(tier):
    cfgs = []
    dtypes = ['<f8'] if tier == 'quick' else ['<f8', '>i2', '|u1', '<c16']
    for dt in dtypes:
        for content in ('empty', 'nonempty'):
            for meta in (False, True):
                for route in ('create', 'asarray', 'default', 'copy'):
                    if tier == 'quick' and route == 'copy' and meta:
                        continue
                    cfgs.append({'kind': 'array', 'content': content, 'meta': meta, 'route': route, 'dtype': dt})
        for content in ('empty', 'zerosubs', 'nonempty'):
            for meta in (False, True):
                for route in ('create', 'createro', 'copy'):
                    cfgs.append({'kind': 'ragged', 'content': content, 'meta': meta, 'route': route, 'dtype': dt})
    return cfgs


def run(tier):
    return run_graphs(
        'C11', tier, FACTORY, configs(tier), keep={'mode'},
        single_outcome_ok=('reopen_default', 'reopen_rw', 'badopen', 'mode_in_ctx'),
        rule=('state = files + live handle; every mutating entry point (a[0]=v, a[:]=v, a[...]=v, append of a row / of zero '
              'rows, iterappend of a row / empty / zero rows, truncate 0 / -1, delete, metadata update/setitem/pop/popitem/del) '
              'is a transition from every reachable state; in mode r it must raise and leave a recursive byte snapshot '
              'identical, in mode r+ (valid calls) it must return and its effect be observed; modes are reached through creation '
              'with accessmode=r (create_array, asarray, Array.copy, create_raggedarray, asraggedarray, RaggedArray.copy), default reopen, a refused open_array(accessmode="rw") in between, assignment '
              'and any sequence of switches (the graph closes over them); arrays with first axis 0, ragged arrays with no '
              'subarrays and with only zero-length subarrays included'),
        assumptions=['length bound 2 rows / subarrays'])


def replay(rec):
    return replay_graph(rec)

"""C12 - Indexing reads and writes follow NumPy semantics, as detached copies, durably (E2)."""
import itertools
import os

import numpy as np

from .. import payload, snapshot
from ..common import import_darr, outcome_of, exc_class, rmtree
from ..engines.enum import run_enum, replay_case
from ..sys_array import viol

SHAPES_Q = [(3,), (0,), (1,), (3, 2), (0, 2), (1, 3), (2, 1), (2, 1, 3), (2, 1, 2, 2)]
SHAPES_T = SHAPES_Q + [(2,), (2, 3), (3, 1, 2), (0, 2, 2), (2, 2, 1, 2)]
P = 4          # parts per (shape, dtype, kind)


class _Obj:
    def __repr__(self):
        return '<object>'


def axis_atoms(n, reduced):
    """(label, python object) index atoms for an axis of extent n."""
    A = []
    ints = range(-n - 1, n + 1) if not reduced else sorted({0, -1, n, -n - 1})
    for i in ints:
        A.append((f'{i}', i))
    sl = [(':', slice(None)), ('::2', slice(None, None, 2)), ('::-1', slice(None, None, -1)),
          ('1:', slice(1, None)), (':-1', slice(None, -1)), ('5:9', slice(5, 9)), ('2:1', slice(2, 1))]
    A += sl if not reduced else [sl[0], sl[2], sl[6]]
    A.append(('...', Ellipsis))
    A.append(('None', None))
    if not reduced:
        A.append((f'[0,{n - 1}]', [0, n - 1]))
        A.append(('arr[-1,0]', np.array([-1, 0])))
        A.append((f'arr[{n}]', np.array([n])))
        A.append(('mask', np.arange(n) % 2 == 0))
        A.append(('mask+1', np.arange(n + 1) % 2 == 0))
    else:
        A.append(('arr[-1,0]', np.array([-1, 0])))
    return A


def index_exprs(shape, reduced, maxlen=None):
    """All tuples of length 0..rank+1 over the atoms (atoms are taken for the extent of the axis at that
    position, the last axis' extent for the surplus position), plus bare (non-tuple) forms and specials."""
    rank = len(shape)
    out = [('()', ())]
    maxlen = rank + 1 if maxlen is None else maxlen
    for L in range(1, maxlen + 1):
        per = [axis_atoms(shape[min(i, rank - 1)], reduced) for i in range(L)]
        for combo in itertools.product(*per):
            label = ','.join(c[0] for c in combo)
            out.append((f'({label},)', tuple(c[1] for c in combo)))
            if L == 1:
                out.append((label, combo[0][1]))          # bare index, not a tuple
    full = (np.arange(int(np.prod(shape))).reshape(shape) % 2 == 0)
    out += [('fullmask', full), ('0d', np.array(0)), ("'a'", 'a'), ('1.5', 1.5), ('object', _Obj()), ('{}', {})]
    return out


def make_ref(shape, dtype):
    n = int(np.prod(shape))
    return payload.values('A', n, (), np.dtype(dtype)).reshape(shape) if n else np.zeros(shape, dtype=dtype)


def same(a, b):
    a, b = np.asarray(a), np.asarray(b)
    return a.shape == b.shape and a.dtype.str == b.dtype.str and a.tobytes() == b.tobytes()


def detached(x):
    if not isinstance(x, np.ndarray) or isinstance(x, np.memmap):
        return False
    b = x
    while b is not None:
        if isinstance(b, np.memmap) or type(b).__name__ == 'mmap':
            return False
        b = getattr(b, 'base', None)
    return True


def evaluate(case):
    darr = import_darr()
    shape, dtype, kind, part = tuple(case['shape']), case['dtype'], case['kind'], case['part']
    reduced = len(shape) >= 3 or kind == 'write'
    ref0 = make_ref(shape, dtype)
    path = 'a.darr'
    rmtree(path)
    if shape[0] == 0:
        a = darr.create_array(path, shape=shape, dtype=dtype, accessmode='r+')
    else:
        a = darr.asarray(path, ref0, accessmode='r+')
    V, classes, nev = [], set(), 0
    exprs = index_exprs(shape, reduced, maxlen=(len(shape) + 1 if len(shape) < 4 else len(shape)))
    mine = exprs[part::P]
    pre = f'rank{len(shape)}' + (',empty' if 0 in shape else '')
    kept = []
    dict0 = {k: v for k, v in a.__dict__.items() if k in ('_memmap', '_valuesfd')}

    def post(label, where):
        leaks = snapshot.open_handles_on(path)
        now = {k: v for k, v in a.__dict__.items() if k in dict0}
        if leaks or any(now[k] is not dict0[k] for k in dict0):
            V.append(viol('index', 'handles', pre, 'descriptor, map or cache left after the call',
                          f'after a[{label}] {where}: open {leaks[:2]}, cache fields {now}', index=label))

    if kind == 'read':
        for label, idx in mine:
            for ctx in (False, True):
                nev += 1
                rw, rv = outcome_of(lambda: ref0[idx])
                if ctx:
                    def call():
                        with a.open_array():
                            return a[idx]
                else:
                    call = lambda: a[idx]
                w, v = outcome_of(call)
                where = 'inside open_array()' if ctx else 'outside a context'
                if rw == 'raises':
                    classes.add(('raises', exc_class(rv)))
                    if w == 'returns' or type(v) is not type(rv):
                        V.append(viol('index', 'getitem', pre, 'error class differs from NumPy',
                                      f'a[{label}] on shape {shape} {where}: '
                                      f'{"returns" if w == "returns" else exc_class(v)}, NumPy raises {exc_class(rv)}',
                                      index=label, ctx=ctx))
                else:
                    rr = np.asarray(rv)
                    classes.add(('value', rr.ndim, rr.size == 0, isinstance(idx, tuple) and len(idx)))
                    if w == 'raises':
                        V.append(viol('index', 'getitem', pre, f'raises {exc_class(v)} where NumPy returns',
                                      f'a[{label}] on shape {shape} {where}: {v!r}', index=label, ctx=ctx))
                    elif not same(v, rr):
                        V.append(viol('index', 'getitem', pre, 'result differs from NumPy',
                                      f'a[{label}] on shape {shape} {dtype} {where}: got {np.asarray(v).dtype.str}'
                                      f'{np.asarray(v).shape}, NumPy {rr.dtype.str}{rr.shape} (or values)', index=label, ctx=ctx))
                    elif not detached(v):
                        V.append(viol('index', 'getitem', pre, 'result is not a detached in-memory ndarray',
                                      f'a[{label}] {where} returns {type(v).__name__} with base {type(getattr(v, "base", None)).__name__}',
                                      index=label, ctx=ctx))
                    elif len(kept) < 400:
                        kept.append((label, v, rr.copy()))
                post(label, where)
        # results stay valid and unchanged whatever happens to the file afterwards
        if shape[0] > 0:
            a[...] = 0
            darr.truncate_array(a, 0)
        darr.delete_array(a)
        for label, v, rr in kept:
            nev += 1
            if not same(v, rr):
                V.append(viol('index', 'getitem', pre, 'returned array changed after the file was modified/deleted',
                              f'result of a[{label}] changed after overwrite+truncate+delete', index=label))
        return V, classes, nev

    # ---- writes -------------------------------------------------------------
    values = [('scalar', 7), ('row', None), ('otherdtype', None), ('wrongshape', None)]
    datap = os.path.join(path, 'arrayvalues.bin')
    for label, idx in mine:
        rw, rv = outcome_of(lambda: ref0[idx])
        for vname, val in values:
            for ctx in (False, True):
                ref = ref0.copy()
                if vname == 'row':
                    val = (np.arange(shape[-1]) + 2).astype(dtype)
                elif vname == 'otherdtype':
                    if rw == 'raises':
                        continue
                    val = (np.arange(np.asarray(rv).size).reshape(np.asarray(rv).shape) + 3).astype('>f4' if np.dtype(dtype).kind != 'f' else '>i2')
                elif vname == 'wrongshape':
                    val = np.ones((5, 7), dtype=dtype)
                nev += 1

                def rcall():
                    ref[idx] = val
                if ctx:
                    def call():
                        with a.open_array():
                            a[idx] = val
                else:
                    def call():
                        a[idx] = val
                ew, ev = outcome_of(rcall)
                w, v = outcome_of(call)
                where = 'inside open_array()' if ctx else 'outside a context'
                if ew == 'raises':
                    classes.add(('w-raises', exc_class(ev)))
                    if w == 'returns' or type(v) is not type(ev):
                        V.append(viol('index', 'setitem', pre, 'error class differs from NumPy',
                                      f'a[{label}] = {vname} on shape {shape} {where}: '
                                      f'{"returns" if w == "returns" else exc_class(v)}, NumPy raises {exc_class(ev)}',
                                      index=label, value=vname, ctx=ctx))
                else:
                    classes.add(('w-ok', vname, np.asarray(rv).ndim if rw == 'returns' else -1))
                    if w == 'raises':
                        V.append(viol('index', 'setitem', pre, f'raises {exc_class(v)} where NumPy assigns',
                                      f'a[{label}] = {vname} on shape {shape} {where}: {v!r}', index=label, value=vname, ctx=ctx))
                with open(datap, 'rb') as f:
                    raw = f.read()
                if not (same(a[:], ref) and same(darr.Array(path)[:], ref) and raw == ref.tobytes()):
                    V.append(viol('index', 'setitem', pre, 'contents after assignment differ from NumPy',
                                  f'after a[{label}] = {vname} on shape {shape} {dtype} {where}: live handle, fresh handle or raw '
                                  f'file differ from the reference', index=label, value=vname, ctx=ctx))
                post(label, where)
                if shape[0] > 0 and raw != ref0.tobytes():
                    a[...] = ref0
    rmtree(path)
    return V, classes, nev


def evaluate_pairs(case):
    """All pairs (read|write) x (read|write) on overlapping indices, inside and outside one context."""
    darr = import_darr()
    shape, dtype = tuple(case['shape']), case['dtype']
    ref0 = make_ref(shape, dtype)
    path = 'p.darr'
    idxs = [(0,), (slice(None),), (slice(None, None, -1),), ([0, -1],), (-1,), (Ellipsis, 0) if len(shape) > 1 else (slice(0, 2),)]
    V, classes, nev = [], set(), 0
    for i1, i2 in itertools.product(idxs, idxs):
        for k1, k2 in itertools.product('rw', 'rw'):
            for ctx in (False, True):
                rmtree(path)
                a = darr.asarray(path, ref0, accessmode='r+')
                ref = ref0.copy()
                got, want = [], []

                def do(k, ix, val):
                    if k == 'r':
                        got.append(a[ix])
                        want.append(np.asarray(ref[ix]).copy())
                    else:
                        a[ix] = val
                        ref[ix] = val
                nev += 1

                def seq():
                    do(k1, i1, 5)
                    do(k2, i2, 9)
                if ctx:
                    def run():
                        with a.open_array():
                            seq()
                else:
                    run = seq
                w, v = outcome_of(run)
                classes.add((k1, k2, ctx))
                ok = w == 'returns' and all(same(g, x) for g, x in zip(got, want)) and same(a[:], ref) and \
                    same(darr.Array(path)[:], ref) and not snapshot.open_handles_on(path)
                if not ok:
                    V.append(viol('index', 'sequence', f'{k1}{k2}', 'sequence of accesses differs from NumPy',
                                  f'{k1} a[{i1}] then {k2} a[{i2}] (context={ctx}) on shape {shape}: '
                                  + (repr(v) if w == 'raises' else 'values differ or handle left open')))
    rmtree(path)
    return V, classes, nev


def evaluate_modeswitch(case):
    """The access mode is changed after the handle was made: assignment follows the CURRENT mode."""
    darr = import_darr()
    shape, dtype = tuple(case['shape']), case['dtype']
    ref0 = make_ref(shape, dtype)
    path = 'm.darr'
    V, classes, nev = [], set(), 0
    idxs = [(0,), (slice(None),), (-1,), ([0, -1],)]
    for first in ('r', 'r+'):
        for ix in idxs:
            rmtree(path)
            darr.asarray(path, ref0, accessmode='r+')
            a = darr.Array(path, accessmode=first)
            ref = ref0.copy()
            other = 'r+' if first == 'r' else 'r'
            steps = []
            for mode in (other, first, other):
                a.accessmode = mode
                nev += 1
                w, v = outcome_of(lambda: a.__setitem__(ix, 7))
                if mode == 'r+':
                    ref[ix] = 7
                    ok = w == 'returns'
                else:
                    ok = w == 'raises'
                ok = ok and same(a[:], ref) and same(darr.Array(path)[:], ref) and not snapshot.open_handles_on(path)
                steps.append((mode, w))
                if not ok:
                    V.append(viol('index', 'assign-after-mode-switch', f'{first}->{mode}', 'assignment does not follow the current access mode',
                                  f'handle made with accessmode={first!r}, switched {steps}: a[{ix}] = 7 {w}; contents '
                                  f'{"agree" if same(darr.Array(path)[:], ref) else "differ"} with NumPy'))
                    break
                ref[ix] = ref0[ix] if mode == 'r+' and False else ref[ix]
            else:
                classes.add(('modeswitch', first, str(ix)))
    # a context that opens the data in another mode than the handle's own
    for hmode, cmode in (('r', 'r+'), ('r+', 'r')):
        for ix in idxs:
            rmtree(path)
            darr.asarray(path, ref0, accessmode='r+')
            a = darr.Array(path, accessmode=hmode)
            ref = ref0.copy()
            nev += 1

            def inctx():
                with a.open_array(accessmode=cmode):
                    a[ix] = 7
            w, v = outcome_of(inctx)
            if cmode == 'r+':
                ref[ix] = 7
            ok = (w == 'returns') == (cmode == 'r+') and same(darr.Array(path)[:], ref) and not snapshot.open_handles_on(path)
            if not ok:
                V.append(viol('index', 'assign-in-context', f'handle {hmode}, context {cmode}',
                              'assignment inside a context does not follow the mode the context opened the data with',
                              f'handle accessmode={hmode!r}, with a.open_array(accessmode={cmode!r}): a[{ix}] = 7 -> {w} {v!r:.60}'))
            else:
                classes.add(('ctxmode', hmode, cmode))
    # a Python number that does not fit the element type: ndarray assignment refuses it
    if np.dtype(dtype).kind in 'iu':
        big = int(np.iinfo(np.dtype(dtype)).max) + 45
        for ix in idxs:
            rmtree(path)
            a = darr.asarray(path, ref0, accessmode='r+')
            ref = ref0.copy()
            nev += 1
            wr, vr = outcome_of(lambda: ref.__setitem__(ix, big))
            w, v = outcome_of(lambda: a.__setitem__(ix, big))
            if (w, type(v) if w == 'raises' else None) != (wr, type(vr) if wr == 'raises' else None) or not same(darr.Array(path)[:], ref):
                V.append(viol('index', 'assign-out-of-range', np.dtype(dtype).name, 'differs from ndarray assignment',
                              f'a[{ix}] = {big} on {np.dtype(dtype).name}: Darr {w} {v!r:.50}, ndarray {wr} {vr!r:.50}'))
            else:
                classes.add(('outofrange', str(ix)))
    rmtree(path)
    return V, classes, nev


FAILURES = ['open-badmode', 'iterchunks-badlen', 'datafile-missing', 'bad-index', 'bad-value-shape', 'context-body-raises']


def evaluate_failed(case):
    """A failed operation, then ordinary use of the same handle: nothing may stay open, later reads are current."""
    darr = import_darr()
    shape, dtype = tuple(case['shape']), case['dtype']
    ref = make_ref(shape, dtype)
    path = 'f.darr'
    V, classes, nev = [], set(), 0
    for failure in FAILURES:
        for repeat in (1, 2):
            rmtree(path)
            a = darr.asarray(path, ref, accessmode='r+')
            data = os.path.join(path, 'arrayvalues.bin')

            def fail():
                if failure == 'open-badmode':
                    with a.open_array(accessmode='w'):
                        pass
                elif failure == 'iterchunks-badlen':
                    list(a.iterchunks(chunklen=0))
                elif failure == 'datafile-missing':
                    os.rename(data, data + '.away')
                    try:
                        a[0]
                    finally:
                        os.rename(data + '.away', data)
                elif failure == 'bad-index':
                    a['x']
                elif failure == 'bad-value-shape':
                    a[:] = np.zeros((shape[0] + 3,) + shape[1:])
                elif failure == 'context-body-raises':
                    with a.open_array():
                        a[0]
                        raise KeyError('user code fails inside the context')
            nev += 1
            outs = [outcome_of(fail)[0] for _ in range(repeat)]
            msg = None
            if 'returns' in outs:
                msg = 'the faulty operation did not raise'
            elif snapshot.open_handles_on(path):
                msg = f'left open after the failed operation: {snapshot.open_handles_on(path)}'
            else:
                w, v = outcome_of(lambda: a[0])
                if w == 'raises' or not same(v, ref[0]):
                    msg = f'a[0] after the failure: {v!r:.60}'
                elif snapshot.open_handles_on(path):
                    msg = f'left open after a read that followed the failure: {snapshot.open_handles_on(path)}'
                else:
                    extra = ref[:1]
                    w, v = outcome_of(lambda: (a.append(extra), a[:])[1])
                    want = np.concatenate([ref, extra]).astype(ref.dtype)
                    if w == 'raises' or not same(v, want):
                        msg = f'append + read after the failure does not show the current contents: {v!r:.60}'
                    elif snapshot.open_handles_on(path):
                        msg = 'descriptor or map left open after append + read'
            if msg:
                V.append(viol('index', 'after-failure', failure, 'handle unusable or leaking after a failed operation',
                              f'{failure} (x{repeat}) on shape {shape}: {msg}'))
            else:
                classes.add(('after-failure', failure, repeat))
    rmtree(path)
    return V, classes, nev


def evaluate_any(case):
    if case['kind'] == 'failed':
        return evaluate_failed(case)
    if case['kind'] == 'modeswitch':
        return evaluate_modeswitch(case)
    return evaluate_pairs(case) if case['kind'] == 'pairs' else evaluate(case)


def run(tier):
    shapes = SHAPES_Q if tier == 'quick' else SHAPES_T
    cases = []
    for sh in shapes:
        dts = ['<f8', '>i2'] if len(sh) <= 2 else ['<c8' if len(sh) == 3 else '|u1']
        if tier == 'thorough':
            dts = ['<f8', '>i2', '<c8', '|u1']
        for dt in dts:
            for kind in ('read', 'write'):
                if kind == 'write' and len(sh) == 4 and tier == 'quick':
                    continue
                for part in range(P):
                    cases.append({'shape': list(sh), 'dtype': dt, 'kind': kind, 'part': part})
    for sh, dt in (((3,), '<f8'), ((3, 2), '>i2')):
        cases.append({'shape': list(sh), 'dtype': dt, 'kind': 'pairs', 'part': 0})
        cases.append({'shape': list(sh), 'dtype': dt, 'kind': 'failed', 'part': 0})
        cases.append({'shape': list(sh), 'dtype': dt, 'kind': 'modeswitch', 'part': 0})
    return run_enum(
        'C12', tier, 'dv.checks.c12:evaluate_any', cases, chunk=1,
        rule=('for each array shape (rank 1-4, extents <= 3, incl. a length-0 first axis and length-1 axes) every index tuple '
              'of length 0..rank+1 over the per-axis atoms {all ints -n-1..n, 7 slices, Ellipsis, None, int list, int arrays '
              '(negative, out of range), bool masks of right and wrong length} (reduced atom set for rank >= 3 and for writes), '
              'bare and tuple forms, full-shape mask, 0-d array, non-index objects; reads compared with ndarray[idx] (value, '
              'dtype, shape or same exception class), detachedness, survival of overwrite+truncate+delete; writes of a scalar, '
              'a broadcastable row, an array of another dtype and a wrong shape compared on the live handle, a fresh handle '
              'and the raw file; each inside and outside open_array(); no descriptor/map/cache left after any call; all '
              'read/write pairs on overlapping indices; six kinds of failed operation (invalid open mode, invalid chunk length, '
              'data file temporarily missing, bad index, bad value shape, exception inside a context), once and twice, followed by a '
              'read and an append + read on the same handle; assignment after the access mode was switched once, twice, three times; class = (outcome kind, result rank, emptiness, tuple length)'),
        assumptions=['NumPy ndarray indexing as reference', 'extents <= 3 (index semantics depend on an extent only through '
                     'in-range / boundary / out-of-range)'])


def replay(rec):
    return replay_case(rec)

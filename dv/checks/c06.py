"""C06 - Generated read code for Arrays denotes the stored array in every language (E2: the complete program space)."""
import os
import pickle
import re

import numpy as np

from .. import payload, snapshot
from ..common import import_darr, jdump, outcome_of, rmtree, REPO
from ..engines.enum import run_enum, replay_case
from ..langs import adapters
from ..langs.core import Inconclusive, LangError
from ..sys_array import viol

SHAPES_Q = [(5,), (1,), (2, 3), (3, 1), (1, 4), (2, 3, 4), (4, 1, 2), (2, 3, 4, 5)]
SHAPES_T = SHAPES_Q + [(3, 2, 1), (1, 1, 3), (2, 1, 3, 1, 2), (7,), (1, 1)]
EMPTY_SHAPES = [(0,), (0, 2), (2, 0)]
PATHMODES = ['relative', 'basepath', 'abspath']
PY_FAMILY = ('python', 'numpy', 'numpymemmap', 'darr')
ALL_LANGS = ['R', 'darr', 'idl', 'julia_ver0', 'julia_ver1', 'maple', 'mathematica', 'matlab', 'numpy', 'numpymemmap', 'python', 'scilab']
DOC_COLUMN = {'IDL': ['idl'], 'Julia': ['julia_ver0', 'julia_ver1'], 'Maple': ['maple'], 'Mathematica': ['mathematica'],
              'Matlab': ['matlab'], 'Numpy': ['numpy', 'numpymemmap'], 'Python': ['python'], 'R': ['R'], 'Scilab': ['scilab']}


# ---------------------------------------------------------------------------------------------
# the documented compatibility tables, parsed at run time
# ---------------------------------------------------------------------------------------------

_TABLES = [None]


def doc_tables():
    """-> (types: {numtype: set(languages offered)}, ndim: {'1-D array'|'N-D array': set(languages)})"""
    if _TABLES[0] is None:
        txt = open(os.path.join(os.path.realpath(REPO), 'docs', 'readcode.rst')).read()
        tables = []
        cur = None
        for line in txt.splitlines():
            if line.startswith('|'):
                cells = [c.strip() for c in line.strip().strip('|').split('|')]
                if cur is None:
                    cur = {'header': cells, 'rows': {}}
                    tables.append(cur)
                else:
                    cur['rows'][cells[0]] = cells[1:]
            elif not line.startswith('+'):
                cur = None
        out = []
        for t in tables:
            cols = t['header'][1:]
            d = {}
            for name, cells in t['rows'].items():
                langs = set()
                for col, cell in zip(cols, cells):
                    if cell:
                        langs.update(DOC_COLUMN[col])
                d[name] = langs
            out.append(d)
        types = next(t for t in out if 'int8' in t)
        ndim = next(t for t in out if '1-D array' in t)
        if set(types) != set(payload.NUMTYPES):
            raise RuntimeError('could not parse the type table of docs/readcode.rst')
        _TABLES[0] = (types, ndim)
    return _TABLES[0]


def documented(numtype, ndim, lang):
    if lang == 'darr':
        return True
    types, nd = doc_tables()
    return lang in types[numtype] and lang in nd['1-D array' if ndim == 1 else 'N-D array']


# ---------------------------------------------------------------------------------------------
# running Python-family code in a forked child
# ---------------------------------------------------------------------------------------------

def run_python_code(code, cwd, names=('a',)):
    """exec the code in a forked child whose working directory is cwd; -> dict name -> picklable description"""
    r, w = os.pipe()
    pid = os.fork()
    if pid == 0:
        st = 0
        try:
            os.close(r)
            os.chdir(cwd)
            ns = {}
            try:
                exec(compile(code, '<generated>', 'exec'), ns)
                out = {'ok': True, 'vars': {n: describe_py(ns[n]) for n in names if n in ns},
                       'missing': [n for n in names if n not in ns]}
            except BaseException as e:  # noqa: BLE001
                out = {'ok': False, 'error': f'{type(e).__name__}: {e}'}
            ns.clear()
            import gc
            gc.collect()
            with os.fdopen(w, 'wb') as f:
                f.write(pickle.dumps(out))
        except BaseException:  # noqa: BLE001
            st = 3
        finally:
            os._exit(st)
    os.close(w)
    with os.fdopen(r, 'rb') as f:
        data = f.read()
    _, status = os.waitpid(pid, 0)
    if not data:
        return {'ok': False, 'error': f'child died with status {status}'}
    return pickle.loads(data)


def describe_py(v):
    import array as _array
    if isinstance(v, _array.array):
        return ('pyarray', v.typecode, v.tolist())
    if hasattr(v, 'dtype') and hasattr(v, 'shape') and hasattr(v, '__getitem__'):
        arr = np.array(v[:] if not isinstance(v, np.ndarray) else v)
        return ('ndarray', arr.dtype.str, tuple(arr.shape), arr.tobytes())
    return ('other', repr(v)[:100])


# ---------------------------------------------------------------------------------------------
# evaluation of one stored array: all languages x all path modes
# ---------------------------------------------------------------------------------------------

def make_array(case):
    darr = import_darr()
    dt = np.dtype(case['dtype'])
    shape = tuple(case['shape'])
    base = os.path.join('base', 'sub dir')
    os.makedirs(base, exist_ok=True)
    path = os.path.join(base, 'a.darr')
    rmtree(path)
    if 0 in shape:
        stored = np.zeros(shape, dtype=dt)
        a = darr.asarray(path, stored)
    else:
        stored = payload.lane_distinct(dt, shape, salt=len(shape))
        a = darr.asarray(path, stored)
    return a, stored, path


def code_for(a, lang, mode, path):
    if mode == 'relative':
        return a.readcode(lang), os.path.abspath(path), 'arrayvalues.bin'
    if mode == 'basepath':
        return a.readcode(lang, basepath=path), os.getcwd(), f'{path}/arrayvalues.bin'
    real = os.path.realpath(os.path.join(path, 'arrayvalues.bin'))
    return a.readcode(lang, abspath=True), '/', real


def compare_python(lang, got, stored):
    """got: description tuple from the child"""
    if lang == 'python':
        vars_ = got
        a = vars_.get('a')
        if a is None or a[0] != 'pyarray':
            return 'variable a is not an array.array'
        native = stored.astype(stored.dtype.newbyteorder('='))
        if stored.dtype.kind == 'c':
            flat = native.view(native.real.dtype).ravel().tolist()
            if a[2] != flat:
                return 'array a does not hold the interleaved real/imaginary values'
            re, im = vars_.get('real'), vars_.get('imag')
            if re is None or im is None or re[2] != native.real.ravel().tolist() or im[2] != native.imag.ravel().tolist():
                return 'real / imag arrays do not hold the real / imaginary parts'
            return None
        if a[2] != native.ravel().tolist():
            return 'values differ'
        return None
    a = got.get('a')
    if a is None or a[0] != 'ndarray':
        return f'variable a is not an array ({a!r:.60})'
    _, dts, shape, raw = a
    if np.dtype(dts) != stored.dtype or np.dtype(dts).str.lstrip('|=') != stored.dtype.str.lstrip('|='):
        return f'dtype {dts} instead of {stored.dtype.str}'
    if tuple(shape) != stored.shape:
        return f'shape {shape} instead of {stored.shape}'
    if raw != stored.tobytes():
        return 'values differ'
    return None


def evaluate(case):
    w, made = outcome_of(lambda: make_array(case))
    if w == 'raises':
        if 0 in case['shape'][1:]:
            return [], None, 0       # creating arrays with a zero trailing extent is not demanded by any property: skip
        raise made
    a, stored, path = made
    dt = stored.dtype
    numtype = dt.name
    empty = stored.size == 0
    V = []
    classes = set()
    nprog = 0
    pre = f'{numtype},{"big" if dt.byteorder == ">" else "little"},ndim={stored.ndim}'
    offered = []
    for lang in ALL_LANGS:
        for mode in PATHMODES:
            def add(sym, what, _lang=lang, _mode=mode):
                V.append(viol('readcode', _lang, pre, sym, f'{_lang} code for {dt.str} array of shape {list(stored.shape)} '
                                                          f'({_mode} path): {what}', mode=_mode))
            w, v = outcome_of(lambda: code_for(a, lang, mode, path))
            if w == 'raises':
                add('readcode raises', f'{v!r:.150}')
                continue
            code, cwd, literal = v
            if mode == 'relative':
                doc = documented(numtype, stored.ndim, lang)
                if (code is not None) != doc:
                    add('offered against the documented compatibility table',
                        f'code is {"offered" if code is not None else "withheld"} but docs/readcode.rst says '
                        f'{"supported" if doc else "not supported"}')
                if code is not None:
                    offered.append(lang)
            if code is None:
                continue
            nprog += 1
            if not isinstance(code, str):
                add('readcode is not a string', repr(code)[:80])
                continue
            if lang != 'darr' and f"'{literal}'" not in code and f'"{literal}"' not in code:
                add('file path is not the requested one', f'expected the literal {literal!r} in:\n{code}')
            before = snapshot.snap(path)
            if lang in PY_FAMILY:
                src = code.replace('path_to_data_dir', os.path.abspath(path)) if lang == 'darr' else code
                res = run_python_code(src, cwd, names=('a', 'real', 'imag'))
                if not res['ok']:
                    # for arrays without elements only the no-file-change clause is stated (np.memmap cannot map an empty file)
                    if not empty:
                        add('generated code fails when executed', res['error'][:200])
                elif not empty:
                    msg = compare_python(lang, res['vars'], stored)
                    if msg:
                        add('does not yield the stored array', msg)
                    else:
                        classes.add((lang, numtype, stored.ndim))
                if snapshot.snap(path) != before:
                    add('running the code changed files of the array', '; '.join(snapshot.diff(before, snapshot.snap(path))))
                    snapshot.restore(path, before)
                elif empty:
                    classes.add((lang, 'empty-unchanged'))
                continue
            if empty:
                continue          # the statement quantifies the value clause over arrays with at least one element
            ad = adapters.get(lang)
            try:
                result, fs = ad.run_array(code, cwd, 'a')
            except LangError as e:
                add('ill-formed program', f'{e}\n{code}')
                continue
            except Inconclusive as e:
                classes.add((lang, 'inconclusive', str(e)[:60]))
                continue
            except Exception as e:  # noqa: BLE001 - the interpreter met something it has no rule for (never on the unchanged tree)
                add('program cannot be interpreted', f'{type(e).__name__}: {e}\n{code}')
                continue
            for name in fs.opened:
                if name != literal:
                    add('file path is not the requested one', f'the program opens {name!r}, requested {literal!r}')
            msg = ad.compare(result, stored)
            if msg:
                add('does not yield the stored array', f'{msg}\n{code}')
            else:
                classes.add((lang, numtype, stored.ndim))
    w, listed = outcome_of(lambda: tuple(a.readcodelanguages))
    if w == 'raises' or sorted(listed) != sorted(offered):
        V.append(viol('readcode', 'readcodelanguages', pre, 'readcodelanguages differs from the languages for which code is offered',
                      f'{dt.str} shape {list(stored.shape)}: readcodelanguages={listed!r:.200}, code offered for {sorted(offered)}'))
    inconclusive = [x for x in V if x[0] == 'INCONCLUSIVE']
    V = [x for x in V if x[0] != 'INCONCLUSIVE']
    rmtree('base')
    return V, classes, nprog + len(inconclusive) * 0


def build_cases(tier):
    shapes = SHAPES_Q if tier == 'quick' else SHAPES_T
    cases = []
    for dts in payload.ALL_DTYPES:
        for sh in shapes:
            cases.append({'dtype': dts, 'shape': list(sh)})
    empties = ['<f8', '>i2', '|u1', '<c8'] if tier == 'quick' else payload.ALL_DTYPES
    for dts in empties:
        for sh in EMPTY_SHAPES:
            cases.append({'dtype': dts, 'shape': list(sh)})
    return cases


def run(tier):
    doc_tables()
    cases = build_cases(tier)
    return run_enum(
        'C06', tier, 'dv.checks.c06:evaluate', cases, chunk=4,
        rule=('every generated program: 13 numeric types x 2 byte orders (one for 1-byte types) x shapes '
              f'{SHAPES_Q if tier == "quick" else SHAPES_T} (pairwise distinct extents, length-1 axes) x 12 languages x '
              '{relative, basepath, abspath}; plus empty arrays for the no-file-change clause; element values have pairwise '
              'distinct bytes in every byte lane; oracle: offered exactly as the tables in docs/readcode.rst say, readcodelanguages '
              '== offered set, the file literal is the requested path, Python-family code executed in a forked child (cwd = array '
              'directory / base directory / root), other languages parsed and interpreted by dv/langs (documented read / reshape / '
              'index semantics), result == stored values with axes as stored (row-major) or reversed (column-major); directory '
              'byte-identical after running; evaluations = programs generated and run; class = (language, type, ndim) that was '
              'confirmed correct'),
        assumptions=['foreign-language semantics are those encoded in dv/langs (DESIGN.md appendix A), read leniently where uncertain',
                     'host byte order little-endian'],
        min_classes=20, class_guard=class_guard)


def class_guard(classes):
    """every language must have programs that were fully interpreted / executed and confirmed, for every type it is documented for"""
    types, _ = doc_tables()
    problems = []
    confirmed = {}
    inconclusive = sorted({c for c in classes if len(c) >= 2 and c[1] == 'inconclusive'})
    for c in classes:
        if len(c) == 3 and c[1] in types:
            confirmed.setdefault(c[0], set()).add(c[1])
    for lang in ALL_LANGS:
        want = {t for t in types if lang == 'darr' or lang in types[t]}
        missing = sorted(want - confirmed.get(lang, set()))
        if missing:
            problems.append(f'{lang}: no program confirmed for types {missing}')
    if inconclusive:
        problems.append(f'programs using unmodelled language features: {inconclusive}')
    return problems, {'languages_confirmed': {k: len(v) for k, v in sorted(confirmed.items())}, 'inconclusive_programs': len(inconclusive)}


def replay(rec):
    return replay_case(rec)

"""C13 - Metadata behaves as a dictionary persisted to metadata.json (E1)."""
from ..graphcheck import replay_graph, run_graphs

FACTORY = 'dv.sys_meta:MetaSys'


def configs(tier):
    cfgs = []
    for kind in ('array', 'ragged'):
        for start in ('none', 'given', 'emptydict'):
            for fam in ('two', 'three'):
                cfgs.append({'kind': kind, 'start': start, 'family': fam})
    return cfgs


def run(tier):
    return run_graphs(
        'C13', tier, FACTORY, configs(tier), keep={'meta'}, require_bound_hit=False,
        single_outcome_ok=('setitem', 'update', 'updatekw', 'update2', 'update3', 'update_empty', 'popdef', 'popsame',
                           'reopen', 'bad', 'updboth'),
        rule=('state = files + live handle dump; two families of graphs: keys {a,b} with 14 value kinds (int, float, NaN, '
              'inf, non-ASCII/non-BMP text, control characters, bool, None, nested list, nested dict, NumPy int/float/array, '
              'bytes) and keys {a,b,c} with 3 values; operations: m[k]=v, update(dict), update(**kw), two- and three-key '
              'update, update({}), pop(k), pop(k,default), del, popitem, update with a non-serialisable value, reopen; '
              'x {Array, RaggedArray} x {no metadata, metadata given at creation}; the key/value space is finite so the '
              'search reaches a fixpoint'),
        assumptions=['JSON round-trip through json.dumps/json.loads with an own NumPy converter as reference',
                     'popitem may return any present key (model is nondeterministic there)'])


def replay(rec):
    return replay_graph(rec)

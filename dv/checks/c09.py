"""C09 - A failed Array append leaves exactly the completed chunks (E3 fault enumeration)."""
import os

import numpy as np

from .. import decoder, payload
from ..common import import_darr, outcome_of, exc_class, rmtree
from ..engines import faults
from ..engines.enum import product, run_enum, replay_case
from ..sys_array import viol

ROWS = {'big1d': (512,), 'big2d': (16, 32), 'big3d': (8, 8, 8), 'small': (64,),
        'mid': (500,),
        'scalar1d': ()}    # a one-dimensional array: chunks may also be zero-dimensional arrays and plain numbers     # 4000 B rows: larger than every text file Darr rewrites, smaller than the 4 KiB stdio buffer
DT = np.dtype('<f8')
README_FLOOR = 3900        # every text file Darr rewrites during recovery is smaller than this


def rowbytes(rows):
    return int(np.prod(ROWS[rows])) * DT.itemsize


def start_rows(rows, start):
    if start == 'empty':
        return 0
    return 8 if rows == 'small' else 2


def good_chunks(rows, n):
    tr = ROWS[rows]
    return [payload.values('ABGH'[i % 4], 1 if i % 2 == 0 else 2, tr, DT) for i in range(n)]


def bad_chunk(kind, rows):
    tr = ROWS[rows]
    if kind == 'badtrail':
        return np.zeros((1,) + tr[:-1] + (tr[-1] + 1,), dtype=DT)
    if kind == 'badtrail0':
        return np.zeros((0,) + tr[:-1] + (tr[-1] + 1,), dtype=DT)
    if kind == 'badzero':
        return np.zeros((2,) + tr[:-1] + (0,), dtype=DT)
    if kind == 'badrank':
        return np.zeros((1,) + tr + (1,), dtype=DT)
    if kind == 'unconv':
        return np.full((1,) + tr, 'x', dtype=object).tolist()
    if kind == 'complexlist':      # a nested list of complex numbers: np.asarray(list, dtype=float64) refuses it
        return np.full((1,) + tr, 1 + 2j, dtype=object).tolist()
    if kind == 'barerow':          # shaped like ONE row, without the first axis
        return np.zeros(tr, dtype=DT)
    raise KeyError(kind)


def evaluate(case):
    darr = import_darr()
    rows, start, entry, n, kind, pos = case['rows'], case['start'], case['entry'], case['nchunks'], case['kind'], \
        case['position']
    tr = ROWS[rows]
    n0 = start_rows(rows, start)
    path = 'f.darr'
    rmtree(path)
    if n0 == 0:
        a = darr.create_array(path, shape=(0,) + tr, dtype=DT, accessmode='r+')
        orig = np.zeros((0,) + tr, dtype=DT)
    else:
        orig = payload.values('I', n0, tr, DT)
        a = darr.asarray(path, orig, accessmode='r+')
    chunks = good_chunks(rows, n)
    rb = rowbytes(rows)
    L = case.get('L')
    if kind == 'rlimit':
        offs = [orig.nbytes]
        for c in chunks:
            offs.append(offs[-1] + c.nbytes)
        completed = sum(1 for k in range(n) if offs[k + 1] <= L)
        if completed == n:
            return [], None, 0                      # the limit never bites: not a fault case
        items = chunks
    else:
        completed = pos
        if kind in ('iter-raises', 'iter-valueerror', 'iter-abort'):
            items = None
        elif kind == 'zerod':          # a valid but unusual chunk: a zero-dimensional array is one element
            zc = np.array(7.25, dtype=DT)
            items = chunks[:pos] + [zc] + chunks[pos:]
            chunks = chunks[:pos] + [zc.reshape(1)] + chunks[pos:]
            completed = len(chunks)
        else:
            items = chunks[:pos] + [bad_chunk(kind, rows)] + chunks[pos:]
    # ---- the call under fault -------------------------------------------------
    if entry == 'append':
        arg = items[0]
        call = lambda: a.append(arg)
    else:
        if items is None:
            exc = {'iter-raises': faults.IterFault, 'iter-abort': faults.IterAbort}.get(kind, ValueError)
            arg = faults.faulty_iter(chunks, pos, exc=exc, as_generator=(entry == 'iterappend-gen'))
        elif entry == 'iterappend-gen':
            arg = (c for c in items)
        else:
            arg = list(items)
        call = lambda: a.iterappend(arg)
    pre_chunk = None
    if case.get('inctx'):
        # the failing call runs inside an open_array() context in which an earlier append already succeeded
        pre_chunk = payload.values('J', 1, tr, DT)
        inner = call

        def call():
            with a.open_array():
                a.append(pre_chunk)
                inner()
        orig = np.concatenate([orig, pre_chunk]).astype(DT)
        if kind == 'rlimit':
            return [], None, 0            # limits are computed for the plain entry points only
    def outcome(fn):
        try:
            return outcome_of(fn)
        except faults.IterAbort as e:      # not an Exception: arrives like KeyboardInterrupt
            return 'raises', e
    if kind == 'rlimit':
        with faults.file_size_limit(L):
            w, v = outcome(call)
    else:
        w, v = outcome(call)
    if kind == 'zerod' and w == 'raises':
        # the chunk is acceptable; if the call fails all the same, it must fail cleanly: some whole prefix of the chunks
        fw, fr = outcome_of(lambda: darr.Array(path)[:])
        m = (len(fr) - len(orig)) if fw == 'returns' else 0
        completed = max(0, min(m, len(chunks)))
    expected = np.concatenate([orig] + chunks[:completed]).astype(DT) if completed else orig
    V = []
    where = 'first chunk' if completed == 0 else 'later chunk'
    pre = f'start={start},{"small" if rows == "small" else "big"} rows,{where}'
    opname = entry.split('-')[0]
    desc = (('inside an open_array() context after a completed append: ' if case.get('inctx') else '') +
            f'{entry} of {n} chunk(s) onto {start} array (rows of {rb} B), fault {kind} '
            + (f'at byte limit {L}' if kind == 'rlimit' else f'at position {pos}'))

    def add(sym, msg):
        V.append(viol('faults', opname, pre, sym, f'{desc}: {msg}', kind=('write failure' if kind == 'rlimit' else kind)))
    if w == 'returns' and kind != 'zerod':
        add('call did not raise', 'the call returned normally')
    fw, fresh = outcome_of(lambda: darr.Array(path))
    if fw == 'raises':
        add('array cannot be opened afterwards', f'{fresh!r:.150}')
    else:
        got = fresh[:]
        if not payload.same_bits(got, expected):
            add('contents are not original + completed chunks',
                f'fresh handle shows shape {got.shape}, expected {expected.shape} (or values differ)')
        lw, lv = outcome_of(lambda: (len(a), tuple(a.shape), a[:].tobytes()))
        if lw == 'raises' or lv != (len(fresh), tuple(fresh.shape), got.tobytes()):
            add('live handle disagrees with a fresh one', f'live: {lv!r:.80}')
    try:
        dec, _ = decoder.decode_array(path)
        if not payload.same_bits(dec, expected):
            add('files do not hold original + completed chunks', f'decoder sees shape {dec.shape}')
    except decoder.FormatError as e:
        add('directory not self-consistent afterwards', str(e))
    if not V:
        # differential: the recovered state is a normal state
        extra = payload.values('V1', 1, tr, DT)
        aw, av = outcome_of(lambda: a.append(extra))
        ok = aw == 'returns' and payload.same_bits(darr.Array(path)[:], np.concatenate([expected, extra]).astype(DT))
        if not ok:
            add('a subsequent ordinary append fails or lands wrongly', f'{av!r:.100}')
    rmtree(path)
    fired = (w == 'raises') or kind == 'zerod'
    return V, ('fault', start, rows, entry, kind, where, fired, bool(case.get('inctx'))), 1


def build_cases(tier):
    q = tier == 'quick'
    cases = []
    rowsets = ['big1d', 'big2d', 'big3d', 'small', 'mid'] if not q else ['big1d', 'big2d', 'small', 'mid']
    rowsets = rowsets + ['scalar1d']
    # non-I/O kinds
    for rows in rowsets:
        for start in ('empty', 'nonempty'):
            for n in (0, 1, 2, 3):
                for pos in range(0, n + 1):
                    for kind in ('iter-raises', 'iter-valueerror', 'iter-abort', 'badtrail', 'badrank', 'unconv', 'badtrail0',
                                 'badzero', 'complexlist') + (('zerod',) if rows == 'scalar1d' else ('barerow',)):
                        if rows == 'scalar1d' and kind in ('badtrail', 'badtrail0', 'badzero'):
                            continue
                        for entry in ('iterappend-list', 'iterappend-gen'):
                            cases.append({'rows': rows, 'start': start, 'entry': entry, 'nchunks': n, 'kind': kind,
                                          'position': pos})
            for n in (1, 2):
                for pos in range(0, n + 1):
                    for kind in (('iter-raises', 'badtrail', 'unconv') if rows != 'scalar1d' else ('iter-raises', 'unconv')):
                        cases.append({'rows': rows, 'start': start, 'entry': 'iterappend-list', 'nchunks': n, 'kind': kind,
                                      'position': pos, 'inctx': True})
            for kind in ('badtrail', 'badrank', 'unconv', 'badtrail0', 'badzero', 'complexlist', 'barerow'):
                if rows == 'scalar1d' and kind in ('badtrail', 'badtrail0', 'badzero', 'barerow'):
                    continue
                cases.append({'rows': rows, 'start': start, 'entry': 'append', 'nchunks': 0, 'kind': kind, 'position': 0})
    # kernel-enforced write failure
    for rows in [r for r in rowsets if r != 'scalar1d']:
        rb = rowbytes(rows)
        for start in ('empty', 'nonempty'):
            base = start_rows(rows, start) * rb
            for n in (1, 2, 3):
                chunks = good_chunks(rows, n)
                offs = [base]
                for c in chunks:
                    offs.append(offs[-1] + c.nbytes)
                lo, hi = max(base, README_FLOOR), offs[-1]
                if q:
                    Ls = faults.boundary_limits(offs[:-1], DT.itemsize, rb, lo, hi)
                else:
                    Ls = list(range(lo, hi))
                for L in Ls:
                    for entry in (['iterappend-list'] if not q else ['iterappend-list']):
                        cases.append({'rows': rows, 'start': start, 'entry': entry, 'nchunks': n, 'kind': 'rlimit',
                                      'position': None, 'L': L})
                    if n == 1:
                        cases.append({'rows': rows, 'start': start, 'entry': 'append', 'nchunks': 1, 'kind': 'rlimit',
                                      'position': None, 'L': L})
    return cases


def run(tier):
    cases = build_cases(tier)
    nio = sum(1 for c in cases if c['kind'] == 'rlimit')
    return run_enum(
        'C09', tier, 'dv.checks.c09:evaluate', cases, chunk=16, level='fault_enumeration', engine='faults',
        rule=('one deviation per execution: start {empty, non-empty} x row sizes {4 KiB rows in 1-D/2-D/3-D, 4000 B rows (below the stdio buffer), 512 B rows} x '
              '0..3 chunks of 1-2 rows x failure position 0..n x kind {iterable raises a custom exception / ValueError / a BaseException that is not an Exception, a zero-dimensional array as chunk of a 1-D array (valid: must succeed or fail cleanly), chunk '
              'of wrong trailing shape (also with zero rows / a zero extent), wrong rank, unconvertible element} x entry {append, iterappend(list), '
              'iterappend(generator), and the same inside an open_array() context after a completed append}; and kernel-enforced write failure (RLIMIT_FSIZE, SIGXFSZ ignored) at '
              + ('the offsets b-1, b, b+1, b+itemsize/2, b+itemsize, b+row/2, b+row-1, b+row, b+row+1 around every chunk '
                 'boundary b' if tier == 'quick' else 'EVERY byte offset of the growth region')
              + '; oracle: raises, fresh open succeeds, decoder-consistent, contents == original + completed chunks, live == '
              'fresh, a subsequent append lands correctly; a case is non-trivial when its fault fired; class = (start, rows, '
              'entry, kind, first/later chunk, fired)'),
        assumptions=['limits below the size of the text files Darr rewrites during recovery (README ~3.6 KiB) are not explored: '
                     'RLIMIT_FSIZE constrains every file of the process while the property speaks of the data file',
                     'I/O errors other than "file may not grow" are not enumerated'],
        extra_cov={'write_failure_cases': nio, 'other_fault_cases': len(cases) - nio})


def replay(rec):
    return replay_case(rec)

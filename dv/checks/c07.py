"""C07 - Generated read code for RaggedArrays extracts every subarray correctly (E2 over the program space)."""
import itertools
import os
import re

import numpy as np

from .. import payload, snapshot
from ..common import import_darr, outcome_of, rmtree
from ..engines.enum import run_enum, replay_case
from ..langs import adapters
from ..langs.core import Inconclusive, LangError, strip_trailing_ones
from ..sys_array import viol
from .c06 import documented, doc_tables, run_python_code

LANGS = ['R', 'darr', 'idl', 'julia', 'maple', 'mathematica', 'matlab', 'numpymemmap', 'scilab']
TABLE_LANG = {'julia': 'julia_ver1'}
INDEXTYPES = ['int8', 'int16', 'int32', 'int64', 'uint8', 'uint16', 'uint32']
ATOMS = [(), (2,), (2, 3), (2, 1, 3)]
ORIGIN = {'R': 1, 'darr': 0, 'idl': 0, 'julia': 1, 'maple': 1, 'mathematica': 1, 'matlab': 1, 'numpymemmap': 0, 'scilab': 1}
POSITION = ['first', 'second', 'third']
EMPTY_HAS_DIMS = {'matlab', 'julia', 'maple', 'R'}


def length_vectors():
    vs = []
    for n in (1, 2, 3):
        vs += [list(v) for v in itertools.product((0, 1, 2), repeat=n)]
    vs.append([1, 0, 2, 0, 1, 3, 1])
    vs.append([0, 0, 3, 0])
    return vs


def make_ragged(case):
    darr = import_darr()
    dt = np.dtype(case['dtype'])
    atom = tuple(case['atom'])
    path = 'r.darr'
    rmtree(path)
    subs = []
    for j, n in enumerate(case['lengths']):
        subs.append(payload.lane_distinct(dt, (n,) + atom, salt=j + 1) if n else np.zeros((0,) + atom, dtype=dt))
    ra = darr.asraggedarray(path, subs, dtype=dt, indextype=case['indextype'])
    return ra, subs, path


def supported(lang, numtype, itype, nvalues):
    """Per the documented table: both the values type and the index type must be readable (R: int64 indices allowed)."""
    tl = TABLE_LANG.get(lang, lang)
    if lang == 'darr':
        return True
    vs = documented(numtype, 2, tl)
    if lang == 'R' and itype == 'int64':
        return vs and nvalues <= 2147483647
    return vs and documented(itype, 2, tl)


def example_info(code):
    """(position word, k) announced by the example comment, or None"""
    m = re.search(r'example to (?:read|get) (?:the )?(\w+) \(k=(\d+)\) subarray', code)
    if not m:
        return None
    return m.group(1), int(m.group(2))


def expected_of(sub, ad):
    return sub.T if ad.column_major else sub


def check_sub(ad, lang, got, sub, atom):
    """None or message: does `got` (language value converted to ndarray) denote subarray `sub`?"""
    if sub.shape[0] == 0:
        if got.size != 0:
            return f'zero-length subarray comes back with {got.size} elements'
        if lang in EMPTY_HAS_DIMS and got.ndim >= 1 and not (lang == 'R' and got.shape == (0,) and not atom):
            want = tuple(reversed(atom)) + (0,)
            gs = tuple(got.shape)
            if ad.strips_trailing_ones or not atom:
                # no atom: any empty vector; Matlab: 0x1, 1x0 and 0x0 are all "empty vector"
                if not atom:
                    return None if all(d <= 1 for d in gs) or gs in ((0,), (0, 0)) else f'empty value has dimensions {list(gs)}'
            if gs != want:
                return f'empty value has dimensions {list(gs)}, the atom in this language\'s axis order gives {list(want)}'
        return None
    exp = expected_of(sub, ad)
    rs, es = tuple(got.shape), tuple(exp.shape)
    if lang in ('R',):                       # drop=TRUE removes length-1 axes: a documented language default
        rs, es = tuple(d for d in rs if d != 1), tuple(d for d in es if d != 1)
    elif ad.strips_trailing_ones:
        rs, es = strip_trailing_ones(rs), strip_trailing_ones(es)
        if sum(1 for d in es if d != 1) <= 1:
            rs, es = tuple(d for d in rs if d != 1), tuple(d for d in es if d != 1)
    if rs != es:
        return f'dimensions {list(got.shape)}, expected {list(exp.shape)}'
    order = 'F' if ad.column_major else 'C'
    g = np.asarray(got).flatten(order=order).tolist()
    w = np.asarray(exp).astype(exp.dtype.newbyteorder('=')).flatten(order=order).tolist()
    if g != w:
        return f'values differ (got {g[:4]}…, stored {w[:4]}…)'
    return None


def evaluate(case):
    ra, subs, path = make_ragged(case)
    dt = np.dtype(case['dtype'])
    atom = tuple(case['atom'])
    itype = case['indextype']
    n = len(subs)
    nvalues = sum(s.shape[0] for s in subs)
    V = []
    classes = set()
    nprog = 0
    pre = f'atomrank={len(atom)},n={min(n, 4)}{"+" if n > 4 else ""}'
    offered = []
    cwd = os.path.abspath(path)
    modes = ['relative'] + (['abspath'] if case.get('abspath') else [])
    for lang in LANGS:
        for mode in modes:
            def add(sym, what, _lang=lang):
                V.append(viol('readcode', _lang, pre, sym,
                              f'{_lang} code for ragged array [{dt.str} values, {itype} indices, atom {list(atom)}, subarray lengths '
                              f'{case["lengths"]}]: {what}'))
            w, code = outcome_of(lambda: ra.readcode(lang, abspath=(mode == 'abspath')))
            if w == 'raises':
                add('readcode raises', f'{code!r:.150}')
                continue
            if mode == 'relative':
                sup = supported(lang, dt.name, itype, nvalues)
                if (code is not None) != sup:
                    add('offered against the documented compatibility table',
                        f'code is {"offered" if code is not None else "withheld"} but values type {dt.name} / index type {itype} are '
                        f'{"supported" if sup else "not both supported"} for {lang} per docs/readcode.rst')
                if code is not None:
                    offered.append(lang)
            if code is None:
                continue
            nprog += 1
            run_cwd = cwd if mode == 'relative' else '/'
            before = snapshot.snap(path)
            origin = ORIGIN[lang]
            info = example_info(code)
            if nvalues and n and info is None:
                add('no example statement found', code[-300:])
            if info is not None and n:
                word, k = info
                kk = k - origin
                if word not in POSITION or POSITION.index(word) != kk:
                    add('example comment is inconsistent', f'announces the {word} subarray with k={k} (index origin {origin})')
                if not 0 <= kk < n:
                    add('example refers to a subarray that does not exist', f'k={k} but the array has {n} subarray(s)')
            if lang in ('darr', 'numpymemmap'):
                src = code.replace('path_to_data_dir', cwd)
                acc = '[getsubarray(k) for k in range(len(i))]' if lang == 'numpymemmap' else '[a[k] for k in range(len(a))]'
                src += f'\n__all = {acc}\n'
                res = run_python_code(src, run_cwd, names=('sa', '__all'))
                if not res['ok']:
                    if nvalues:
                        add('generated code fails when executed', res['error'][:200])
                else:
                    if nvalues:
                        sa = res['vars'].get('sa')
                        if info is not None and 0 <= info[1] - origin < n:
                            want = subs[info[1] - origin]
                            if sa is None or sa[0] != 'ndarray' or np.dtype(sa[1]) != want.dtype or tuple(sa[2]) != want.shape \
                                    or sa[3] != want.tobytes():
                                add('example statement does not bind the announced subarray',
                                    f'sa is {sa and sa[:3]!r:.80}, subarray {info[1]} has shape {want.shape}')
                            else:
                                classes.add((lang, 'example', len(atom)))
                        classes.add((lang, dt.name, itype))
                if snapshot.snap(path) != before:
                    add('running the code changed files of the array', '; '.join(snapshot.diff(before, snapshot.snap(path))))
                    snapshot.restore(path, before)
                elif not nvalues:
                    classes.add((lang, 'novalues-unchanged'))
                continue
            if not nvalues:
                continue
            ad = adapters.get(lang)
            try:
                it = ad.run(code, run_cwd)
            except LangError as e:
                add('ill-formed program', f'{e}\n{code}')
                continue
            except Inconclusive as e:
                classes.add((lang, 'inconclusive', str(e)[:40]))
                continue
            except Exception as e:  # noqa: BLE001 - the interpreter met something it has no rule for (never on the unchanged tree)
                add('program cannot be interpreted', f'{type(e).__name__}: {e}\n{code}')
                continue
            # the example statement
            try:
                if info is not None and 0 <= info[1] - origin < n:
                    sa = ad.to_numpy(ad.get_var(it, 'sa'), 'sa')
                    msg = check_sub(ad, lang, sa, subs[info[1] - origin], atom)
                    if msg:
                        add('example statement does not bind the announced subarray', msg + '\n' + code[-400:])
                    else:
                        classes.add((lang, 'example', len(atom)))
            except LangError as e:
                add('example statement does not bind the announced subarray', f'{e}\n{code[-400:]}')
            except Inconclusive as e:
                classes.add((lang, 'inconclusive', str(e)[:40]))
            except Exception as e:  # noqa: BLE001
                add('example statement does not bind the announced subarray', f'{type(e).__name__}: {e}\n{code[-400:]}')
            # the accessor, for every k
            bad = 0
            for j in range(n):
                try:
                    got = ad.to_numpy(ad.subarray(it, code, run_cwd, j + origin), f'subarray {j + origin}')
                    msg = check_sub(ad, lang, got, subs[j], atom)
                except LangError as e:
                    msg = f'accessor fails: {e}'
                except Inconclusive as e:
                    classes.add((lang, 'inconclusive', str(e)[:40]))
                    continue
                except Exception as e:  # noqa: BLE001
                    msg = f'accessor cannot be interpreted: {type(e).__name__}: {e}'
                if msg:
                    bad += 1
                    kind = 'zero-length' if subs[j].shape[0] == 0 else 'non-empty'
                    V.append(viol('readcode', lang, pre + f',{kind}', 'accessor does not return subarray k',
                                  f'{lang} code for ragged array [{dt.str}, {itype} indices, atom {list(atom)}, lengths '
                                  f'{case["lengths"]}]: k={j + origin} ({kind}): {msg}', k=j + origin))
                else:
                    classes.add((lang, len(atom), 'empty' if subs[j].shape[0] == 0 else 'nonempty'))
            if not bad:
                classes.add((lang, dt.name, itype))
    w, listed = outcome_of(lambda: tuple(ra.readcodelanguages))
    if w == 'raises' or sorted(listed) != sorted(offered):
        V.append(viol('readcode', 'readcodelanguages', pre, 'readcodelanguages differs from the languages for which code is offered',
                      f'{dt.str}/{itype}: readcodelanguages={listed!r:.200}, code offered for {sorted(offered)}'))
    rmtree(path)
    return V, classes, nprog


def build_cases(tier):
    cases = []
    vecs = length_vectors()
    # A: every values type x every index type (the type tokens), one structure
    for dts in payload.ALL_DTYPES if tier == 'thorough' else [d for d in payload.ALL_DTYPES if d[0] in '<|']:
        for it in INDEXTYPES:
            cases.append({'dtype': dts, 'indextype': it, 'atom': [2], 'lengths': [1, 0, 2], 'abspath': True})
    # B: every structure (atom rank x number of subarrays x lengths incl. 0), for representative types
    tb = [('<f8', 'int64'), ('<i4', 'uint8')] if tier == 'quick' else \
        [(d, i) for d in ('<f8', '<i4', '>c8', '<u8', '|i1') for i in ('int64', 'uint8', 'int32', 'uint16')]
    for dts, it in tb:
        for atom in ATOMS:
            for v in vecs:
                cases.append({'dtype': dts, 'indextype': it, 'atom': list(atom), 'lengths': v})
    # C: integer-class arithmetic at the edge of a small index type (a trailing zero-length subarray at the maximum index)
    for it, mx in (('int8', 127), ('uint8', 255)):
        cases.append({'dtype': '<i2', 'indextype': it, 'atom': [], 'lengths': [mx - 2, 2, 0]})
        cases.append({'dtype': '<i2', 'indextype': it, 'atom': [], 'lengths': [0, mx]})
    return cases


def run(tier):
    doc_tables()
    cases = build_cases(tier)
    return run_enum(
        'C07', tier, 'dv.checks.c07:evaluate', cases, chunk=4,
        rule=('all generated ragged programs over: (A) every values type x 7 index types (atom (2,), lengths [1,0,2], relative and '
              'absolute paths); (B) atom rank 0..3 x every vector of subarray lengths over {0,1,2} of length 1..3 plus [1,0,2,0,1,3,1] '
              'and [0,0,3,0] (all-zero vectors serve the no-file-change clause) for representative type pairs; (C) totals at the maximum '
              'of 8-bit index types; x 9 languages; oracle: withheld exactly when the values or index type is unsupported per '
              'docs/readcode.rst, readcodelanguages == offered; program well-formed; accessor interpreted / executed for EVERY k == '
              'subarray k (axes reversed for column-major languages; empty value with atom dimensions where the language has them); the '
              'example statement binds the announced, existing subarray; directory byte-identical after running'),
        assumptions=['foreign-language semantics as encoded in dv/langs (DESIGN.md appendix A)', 'host byte order little-endian'],
        min_classes=20, class_guard=class_guard)


def class_guard(classes):
    problems = []
    inconclusive = sorted({c for c in classes if len(c) == 3 and c[1] == 'inconclusive'})
    confirmed = {}
    for c in classes:
        if len(c) == 3 and c[2] in ('empty', 'nonempty'):
            confirmed.setdefault(c[0], set()).add((c[1], c[2]))
    for lang in LANGS:
        if lang in ('darr', 'numpymemmap'):
            if (lang, 'example', 1) not in classes:
                problems.append(f'{lang}: example never confirmed')
            continue
        for rank in range(4):
            for kind in ('empty', 'nonempty'):
                if (rank, kind) not in confirmed.get(lang, set()):
                    problems.append(f'{lang}: accessor never confirmed for atom rank {rank}, {kind} subarrays')
    if inconclusive:
        problems.append(f'programs using unmodelled language features: {inconclusive}')
    return problems, {'accessor_classes_confirmed': {k: len(v) for k, v in sorted(confirmed.items())},
                      'inconclusive_programs': len(inconclusive)}


def replay(rec):
    return replay_case(rec)

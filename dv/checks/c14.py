"""C14 - Chunk iteration yields exactly the specified frames (E2: complete grid up to N)."""
import os

import numpy as np

from ..common import import_darr, outcome_of, exc_class, fresh_dir, rmtree
from ..engines.enum import run_enum, replay_case
from ..sys_array import viol

LARGE = [2 ** 31 - 1, 2 ** 31 + 1, 2 ** 40, 2 ** 63 - 1]


def frames_spec(n, chunklen, step, start, end, rem):
    """Written from the text of the property. Returns list of frames, or ValueError (class)."""
    step = chunklen if step is None else step
    start = 0 if start is None else start
    end = n if end is None else end
    if not (chunklen >= 1 and step >= 1 and 0 <= start < end <= n):
        return ValueError
    frames = []
    k = 0
    while start + k * step + chunklen <= end:
        frames.append((start + k * step, start + k * step + chunklen))
        k += 1
    last_end = frames[-1][1] if frames else start
    nxt = start + k * step
    if rem and end - last_end > 0 and nxt < end:
        frames.append((nxt, end))
    return frames


def fit_spec(total, chunklen, steplen):
    def integral(x):
        return not isinstance(x, bool) and isinstance(x, (int, float)) and x == int(x)
    if not integral(total) or total < 0 or not integral(chunklen) or chunklen < 1:
        return ValueError
    if steplen is not None and (not integral(steplen) or steplen < 1):
        return ValueError
    total, chunklen = int(total), int(chunklen)
    step = chunklen if steplen is None else int(steplen)
    if chunklen > total:
        return (0, 0, total)
    k = (total - chunklen) // step + 1
    covered = k * step + (chunklen - step)
    return (k, covered, total - covered)


_arrays = {}


def _array(n):
    darr = import_darr()
    key = (os.getpid(), n)
    if key not in _arrays:
        p = os.path.join(fresh_dir('c14'), f'a{n}.darr')
        if n == 0:
            _arrays[key] = darr.create_array(p, shape=(0,), dtype='<i4')
        else:
            _arrays[key] = darr.asarray(p, np.arange(n, dtype='<i4') * 3 + 1)
    return _arrays[key]


def evaluate(case):
    """One work item = one (n, chunklen): enumerates step x start x end x flag inside."""
    n, cl, N, do_chunks = case['n'], case['chunklen'], case['N'], case['chunks']
    a = _array(n)
    ref = np.arange(n, dtype='<i4') * 3 + 1
    V, classes, nev = [], set(), 0
    steps = [None] + list(range(1, N + 3)) + [0, -1]
    starts = [None] + list(range(0, n)) + [-1, n]
    ends = [None] + list(range(1, n + 1)) + [0, n + 1]
    for step in steps:
        for start in starts:
            for end in ends:
                for rem in (True, False):
                    nev += 1
                    want = frames_spec(n, cl, step, start, end, rem)
                    what, val = outcome_of(lambda: list(a.iterindices(cl, stepsize=step, startindex=start,
                                                                      endindex=end, include_remainder=rem)))
                    params = {'n': n, 'chunklen': cl, 'stepsize': step, 'startindex': start, 'endindex': end,
                              'include_remainder': rem}
                    if want is ValueError:
                        classes.add('invalid')
                        if what == 'returns' or not isinstance(val, ValueError):
                            why = 'startindex<0' if (start is not None and start < 0) else \
                                  ('stepsize<1' if (step is not None and step < 1) else
                                   ('chunklen<1' if cl < 1 else 'range'))
                            V.append(viol('frames', 'iterindices', why,
                                          'invalid parameters accepted' if what == 'returns' else f'raises {exc_class(val)} not ValueError',
                                          f'iterindices({params}) -> {val!r:.80}; the specification requires ValueError',
                                          params=params))
                        continue
                    classes.add(('frames', len(want), bool(want and want[-1][1] - want[-1][0] < cl),
                                 'gap' if (step or cl) > cl else ('overlap' if (step or cl) < cl else 'tile')))
                    if what == 'raises' or [tuple(f) for f in val] != want:
                        V.append(viol('frames', 'iterindices', 'valid', 'frames differ from specification',
                                      f'iterindices({params}) -> {val!r:.120}; specification {want}', params=params))
                        continue
                    if not do_chunks:
                        continue
                    def consume():
                        out = []
                        for c in a.iterchunks(cl, stepsize=step, startindex=start, endindex=end, include_remainder=rem):
                            owned = isinstance(c, np.ndarray) and not isinstance(c, np.memmap) and bool(c.flags.owndata)
                            out.append((np.array(c, copy=True), owned))
                            if owned and c.flags.writeable:
                                c[...] = 0          # what a consumer does with its own copy must not show up in later chunks
                        return out
                    what, val = outcome_of(consume)
                    ok = what == 'returns' and len(val) == len(want) and all(
                        owned and c.dtype.str == ref.dtype.str and np.array_equal(c, ref[s:e])
                        for (c, owned), (s, e) in zip(val, want))
                    if ok:
                        val = [c for c, _ in val]
                    if not ok:
                        V.append(viol('frames', 'iterchunks', 'valid', 'chunks differ from a[frame]',
                                      f'iterchunks({params}) does not yield detached copies of a[frame] for {want}',
                                      params=params))
                    elif (step is None or step == cl) and rem:
                        s0, e0 = (start or 0), (n if end is None else end)
                        if not np.array_equal(np.concatenate(val), ref[s0:e0]):
                            V.append(viol('frames', 'iterchunks', 'valid', 'chunks do not concatenate to a[start:end]',
                                          f'iterchunks({params})', params=params))
    # fit_frames on the same grid (total = n), incl. float arguments and invalid ones
    darr = import_darr()
    from darr.utils import fit_frames
    for step in [None] + list(range(1, N + 3)) + [0, -1, 1.5, float(cl)]:
        for total in [n, float(n), n + 0.5, -1]:
            for c in [cl, float(cl), cl + 0.5]:
                nev += 1
                want = fit_spec(total, c, step)
                what, val = outcome_of(lambda: fit_frames(total, c, step))
                params = {'totallen': total, 'chunklen': c, 'steplen': step}
                if want is ValueError:
                    classes.add('fit-invalid')
                    if what == 'returns' or not isinstance(val, ValueError):
                        why = 'steplen<1' if (step is not None and step < 1) else 'other'
                        V.append(viol('frames', 'fit_frames', why, 'invalid parameters accepted',
                                      f'fit_frames({params}) -> {val!r:.60}; ValueError required', params=params))
                else:
                    classes.add(('fit', want[0] > 0, want[2] > 0))
                    if what == 'raises' or tuple(int(x) for x in val) != want or \
                            any(float(x) != int(x) for x in val):
                        V.append(viol('frames', 'fit_frames', 'valid', 'triple differs from specification',
                                      f'fit_frames({params}) -> {val!r:.60}; specification {want}', params=params))
    return V, classes, nev


def evaluate_large(case):
    from darr.utils import fit_frames
    V, classes, nev = [], set(), 0
    for total in LARGE:
        for cl in (1, 2, 1023, 2 ** 31, total, total + 1):
            for step in (None, 1, 7, cl, 2 ** 33):
                nev += 1
                want = fit_spec(total, cl, step)
                what, val = outcome_of(lambda: fit_frames(total, cl, step))
                classes.add(('large', want[0] > 0, want[2] > 0))
                if what == 'raises' or tuple(int(x) for x in val) != want:
                    V.append(viol('frames', 'fit_frames', 'large', 'triple differs from specification',
                                  f'fit_frames({total},{cl},{step}) -> {val!r:.60}; specification {want}'))
    return V, classes, nev


def evaluate_regrow(case):
    """The same iteration arguments on one handle before and after its length changed."""
    darr = import_darr()
    V, classes, nev = [], set(), 0
    path = os.path.join(fresh_dir('c14g'), 'g.darr')
    n0 = case['n']
    ref = (np.arange(n0, dtype='<i4') * 3 + 1)
    a = darr.asarray(path, ref, accessmode='r+')
    for (cl, step, rem) in case['params']:
        a2 = a
        cur = ref.copy()
        for change in ('none', 'append', 'truncate', 'append'):
            if change == 'append':
                extra = (np.arange(3, dtype='<i4') + 100 + len(cur))
                a2.append(extra)
                cur = np.concatenate([cur, extra])
            elif change == 'truncate':
                darr.truncate_array(a2, max(1, len(cur) - 4))
                cur = cur[:max(1, len(cur) - 4)]
            want = frames_spec(len(cur), cl, step, None, None, rem)
            nev += 1
            w1, fr = outcome_of(lambda: [tuple(f) for f in a2.iterindices(cl, stepsize=step, include_remainder=rem)])
            w2, ch = outcome_of(lambda: list(a2.iterchunks(cl, stepsize=step, include_remainder=rem)))
            if want is ValueError:
                ok = w1 == 'raises' and w2 == 'raises'
            else:
                ok = w1 == 'returns' and fr == want and w2 == 'returns' and len(ch) == len(want) and \
                    all(np.array_equal(c, cur[s:e]) for c, (s, e) in zip(ch, want))
            if not ok:
                V.append(viol('frames', 'iterchunks', 'after length change', 'frames not those of the current length',
                              f'length {len(cur)} after {change}: iterindices({cl}, stepsize={step}, include_remainder={rem}) -> '
                              f'{fr!r:.100}, specification {want!r:.100}'))
                break
            classes.add(('regrow', change))
        # bring the array back to its start for the next parameter set
        a = darr.asarray(path, ref, accessmode='r+', overwrite=True)
    rmtree(os.path.dirname(path))
    return V, classes, nev


def evaluate_any(case):
    if case.get('kind') == 'regrow':
        return evaluate_regrow(case)
    return evaluate_large(case) if case.get('large') else evaluate(case)


def run(tier):
    N = 8 if tier == 'quick' else 12
    cases = [{'n': n, 'chunklen': cl, 'N': N, 'chunks': n <= 8}
             for n in range(0, N + 1) for cl in list(range(1, N + 3)) + [0, -1]]
    cases.append({'large': True})
    params = [[cl, step, rem] for cl in (1, 2, 3, 5) for step in (None, 1, 2, 4) for rem in (True, False)]
    for n in (5, 8):
        cases.append({'kind': 'regrow', 'n': n, 'params': params})
    return run_enum(
        'C14', tier, 'dv.checks.c14:evaluate_any', cases, chunk=2,
        rule=(f'every (n, chunklen, stepsize, startindex, endindex, include_remainder) with n in 0..{N}, chunklen in '
              f'-1..{N + 2}, stepsize in {{None}} u -1..{N + 2}, startindex in {{None}} u -1..n, endindex in {{None}} u 0..n+1, '
              f'both flags: iterindices against a specification written from the property text, iterchunks (n <= 8) as '
              f'detached copies of a[frame] and concatenation to a[start:end]; fit_frames on the same grid with int, '
              f'integral-float and non-integral-float arguments, and a fixed list of large values (2^31+-1, 2^40, 2^63-1); '
              f'the same arguments on one handle before and after append / truncate / append; '
              f'a class = (number of frames, has partial frame, gap/overlap/tile) or invalid'),
        assumptions=['random large values of the quantifier text are replaced by a fixed enumerated list'],
        extra_cov={'N': N})


def replay(rec):
    return replay_case(rec)

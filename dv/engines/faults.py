"""E3: fault enumeration helpers - one deviation from the default environment per execution.

Kernel-enforced write failure: RLIMIT_FSIZE with SIGXFSZ ignored makes write(2) return a
short count and then fail with EFBIG at an exact byte offset of the growing file.
"""
import contextlib
import resource
import signal


class IterFault(Exception):
    """Raised by a faulty iterable (a plain Exception subclass, as user code would raise)."""


class IterAbort(BaseException):
    """Raised by a faulty iterable the way KeyboardInterrupt / SystemExit arrive: not an Exception subclass."""


@contextlib.contextmanager
def file_size_limit(nbytes):
    """No file of this process may grow beyond nbytes while the block runs."""
    old_handler = signal.signal(signal.SIGXFSZ, signal.SIG_IGN)
    soft, hard = resource.getrlimit(resource.RLIMIT_FSIZE)
    resource.setrlimit(resource.RLIMIT_FSIZE, (nbytes, hard))
    try:
        yield
    finally:
        resource.setrlimit(resource.RLIMIT_FSIZE, (soft, hard))
        signal.signal(signal.SIGXFSZ, old_handler)


def faulty_iter(chunks, position, exc=IterFault, as_generator=True):
    """Yields chunks[0:position], then raises exc."""
    def gen():
        for i, c in enumerate(chunks):
            if i == position:
                raise exc(f'iterable fails at position {position}')
            yield c
        if position >= len(chunks):
            raise exc(f'iterable fails at position {position}')
    if as_generator:
        return gen()

    class It:
        def __iter__(self):
            return gen()
    return It()


def boundary_limits(boundaries, itemsize, rowbytes, lo, hi):
    """The quick-tier offsets around each chunk boundary b, restricted to [lo, hi)."""
    out = set()
    for b in boundaries:
        for d in (-1, 0, 1, itemsize // 2, itemsize, (rowbytes // 2 // itemsize) * itemsize, rowbytes - 1,
                  rowbytes, rowbytes + 1):
            L = b + d
            if lo <= L < hi:
                out.add(L)
    return sorted(out)

"""E4: every crash point of a scenario + every kernel-producible torn write.

A scenario is a callable that performs ONE Darr operation on an existing array.  It is run under
`sys.settrace`; at every `line` / `return` / `exception` event of a frame that executes code of the
tree under test (thorough: also every byte-code of those frames and every line of every other Python
frame) the array directory is read back through the OS.  What the OS returns at that instant is exactly
what would survive death of the process there (bytes still sitting in a Python or stdio buffer are
absent, as they would be).  Consecutive identical snapshots are merged; the result is the complete
sequence of distinct on-disk states S_0 .. S_m the operation passes through.

Between two consecutive states the kernel can additionally expose partially performed writes.  Torn
variants are synthesised only for write patterns that were actually observed:
  growth     (old content is a prefix of the new)      old + every proper prefix of the added tail
  in-place   (neither is a prefix of the other)        new[:k] + old[k:] for every k  (what an r+ rewrite exposes)
  shrink     (new is a prefix of old)                  atomic (truncate): nothing in between
  create / unlink                                      both sides are observed states already
(`open(path,'w')` followed by a write shows up as shrink-to-empty, an observed state, then growth from
empty.)  A step in which more than one file changed is refined by re-running the scenario with the
finest tracing; if it still changes several files at once, torn variants are generated for each file
with the other files in their old AND in their new state (both orders are possible for the kernel).
"""
import os
import sys

from .. import snapshot
from ..common import REPO, fresh_dir, rmtree

_DARR_ROOT = os.path.join(os.path.realpath(REPO), 'darr') + os.sep
_TESTS = os.path.join(_DARR_ROOT, 'tests') + os.sep


def _is_darr_code(filename):
    return filename.startswith(_DARR_ROOT) and not filename.startswith(_TESTS)


class Trace:
    """Sequence of distinct on-disk states of `root` during fn(), with the crash point after which each
    was first seen."""

    def __init__(self, root, fine=False):
        self.root = root
        self.fine = fine
        self.states = []        # list of (files dict, point)
        self.events = 0
        self.darr_events = 0

    def _observe(self, point):
        self.events += 1
        files = snapshot.files(self.root)
        if not self.states or files != self.states[-1][0]:
            self.states.append((files, point))

    def run(self, fn):
        root_real = {}

        def is_darr(fname):
            r = root_real.get(fname)
            if r is None:
                r = root_real[fname] = _is_darr_code(os.path.realpath(fname)) if fname and fname[0] != '<' else False
            return r

        def local(frame, event, arg):
            if event in ('line', 'return', 'exception', 'opcode'):
                self.darr_events += 1
                self._observe((os.path.basename(frame.f_code.co_filename), frame.f_lineno, event, frame.f_code.co_name))
            return local

        def local_other(frame, event, arg):
            if event in ('line', 'return'):
                self._observe((os.path.basename(frame.f_code.co_filename), frame.f_lineno, event, frame.f_code.co_name))
            return local_other

        def glob(frame, event, arg):
            if event != 'call':
                return None
            if is_darr(frame.f_code.co_filename):
                if self.fine:
                    frame.f_trace_opcodes = True
                return local
            return local_other if self.fine else None

        self._observe(('<start>', 0, 'start', ''))
        old = sys.gettrace()
        sys.settrace(glob)
        try:
            try:
                out = ('returns', fn())
            except Exception as e:  # noqa: BLE001
                out = ('raises', e)
        finally:
            sys.settrace(old)
        self._observe(('<end>', 0, 'end', ''))
        return out


def changed_files(a, b):
    return sorted(k for k in set(a) | set(b) if a.get(k) != b.get(k))


def torn_versions(old, new, step=1, edge=8):
    """Contents a single file can show while the kernel takes it from old to new (exclusive of both).
    old / new: bytes or None (absent).  step > 1 thins out long text files: every step-th byte plus the
    first and last `edge` positions."""
    if old is None or new is None:
        # creation: the file may exist with any prefix of its first content (created empty, then written)
        if old is None and new:
            ks = _positions(len(new), step, edge, include_zero=True)
            return [('create-prefix', k, new[:k]) for k in ks]
        return []
    if new.startswith(old):                       # growth
        tail = new[len(old):]
        ks = _positions(len(tail), step, edge)
        return [('growth', len(old) + k, old + tail[:k]) for k in ks]
    if old.startswith(new):                       # shrink: atomic
        return []
    n = max(len(old), len(new))                   # in-place rewrite without truncation
    ks = _positions(min(len(new), n), step, edge)
    return [('inplace', k, new[:k] + old[k:]) for k in ks]


def _positions(n, step, edge, include_zero=False):
    """proper prefixes lengths 1..n-1 (0 too when include_zero)"""
    lo = 0 if include_zero else 1
    if n - 1 < lo:
        return []
    if step <= 1 or n <= 2 * edge + step:
        return list(range(lo, n))
    s = set(range(lo, edge + 1)) | set(range(n - edge, n)) | set(range(lo, n, step))
    return sorted(k for k in s if lo <= k < n)


def enumerate_snapshots(states, data_files=('arrayvalues.bin',), text_step=1):
    """Yield (kind, info, files) for every observed state and every torn variant between consecutive ones.
    kind: 'observed' | 'torn'.  files: {relpath: bytes}."""
    for i, (files, point) in enumerate(states):
        yield 'observed', {'ordinal': i, 'point': point}, files
        if i + 1 == len(states):
            break
        nxt, npoint = states[i + 1]
        ch = changed_files(files, nxt)
        others = [dict(files)]
        if len(ch) > 1:
            others.append(None)       # marker: also with the other changed files already in their new state
        for f in ch:
            isdata = os.path.basename(f) in data_files
            for (tk, k, content) in torn_versions(files.get(f), nxt.get(f), step=(1 if isdata else text_step)):
                for base in others:
                    if base is None:
                        v = dict(nxt)
                        tag = 'others-new'
                    else:
                        v = dict(base)
                        tag = 'others-old'
                    v[f] = content
                    yield 'torn', {'between': [i, i + 1], 'point': npoint, 'file': f, 'torn_kind': tk, 'length': len(content),
                                   'cut': k, 'others': tag, 'multi': len(ch) > 1}, v


def materialise(files, path):
    rmtree(path)
    os.makedirs(path)
    for rel, content in files.items():
        full = os.path.join(path, rel)
        os.makedirs(os.path.dirname(full), exist_ok=True)
        with open(full, 'wb') as f:
            f.write(content)

"""E1: explicit-state breadth-first search over the *real* implementation.

A `System` couples live Darr objects + their directory with a reference model.
The explorer captures the full state (bytes of every file + a generic dump of the
live objects' __dict__), hashes it, and expands every enabled operation from every
distinct state until no new state appears (fixpoint).  Restoring a state rewrites
the files and resets the objects' __dict__; the fidelity of that restore is
validated by re-executing BFS-shortest histories from scratch.
"""
import collections
import os
import types
from pathlib import PurePath

import numpy as np

from .. import snapshot
from ..common import fork_map, fresh_dir, jdump, sha, rmtree
from ..report import HarnessError


# ---------------------------------------------------------------------------
# generic capture / restore of live objects
# ---------------------------------------------------------------------------

def _is_darr_obj(o):
    mod = getattr(type(o), '__module__', '') or ''
    return mod.startswith('darr.') and hasattr(o, '__dict__') and not isinstance(o, type)


class ObjCapture:
    """Freeze the __dict__ of every Darr object reachable from the roots."""

    def __init__(self, roots):
        self.objs = []          # live objects, traversal order
        self.frozen = []        # frozen __dict__ per object
        self._idx = {}
        self.roots = {name: self._visit(o) for name, o in sorted(roots.items())}

    def _visit(self, o):
        if id(o) in self._idx:
            return self._idx[id(o)]
        i = len(self.objs)
        self._idx[id(o)] = i
        self.objs.append(o)
        self.frozen.append(None)
        self.frozen[i] = {k: self._freeze(v) for k, v in o.__dict__.items()}
        return i

    def _freeze(self, v):
        if _is_darr_obj(v):
            return ('obj', self._visit(v))
        if isinstance(v, dict):
            return ('dict', [(k, self._freeze(x)) for k, x in v.items()])
        if isinstance(v, list):
            return ('list', [self._freeze(x) for x in v])
        if isinstance(v, tuple):
            return ('tuple', [self._freeze(x) for x in v])
        if isinstance(v, (set, frozenset)):
            return ('set' if isinstance(v, set) else 'frozenset', sorted(v, key=repr))
        if isinstance(v, types.MethodType) and _is_darr_obj(v.__self__):
            return ('method', self._visit(v.__self__), v.__func__.__name__)
        if isinstance(v, np.ndarray):
            return ('ndarray', v.copy())
        return ('val', v)

    # -- restore -----------------------------------------------------------
    def restore(self):
        for o, fz in zip(self.objs, self.frozen):
            d = {k: self._thaw(v) for k, v in fz.items()}
            o.__dict__.clear()
            o.__dict__.update(d)
        return {name: self.objs[i] for name, i in self.roots.items()}

    def _thaw(self, f):
        t = f[0]
        if t == 'obj':
            return self.objs[f[1]]
        if t == 'dict':
            return {k: self._thaw(x) for k, x in f[1]}
        if t == 'list':
            return [self._thaw(x) for x in f[1]]
        if t == 'tuple':
            return tuple(self._thaw(x) for x in f[1])
        if t == 'set':
            return set(f[1])
        if t == 'frozenset':
            return frozenset(f[1])
        if t == 'method':
            return getattr(self.objs[f[1]], f[2])
        if t == 'ndarray':
            return f[1].copy()
        return f[1]

    # -- canonical text ----------------------------------------------------
    def canon(self):
        parts = [repr(sorted(self.roots.items()))]
        for o, fz in zip(self.objs, self.frozen):
            parts.append(type(o).__name__)
            for k in sorted(fz):
                parts.append(k + '=' + self._ctext(fz[k]))
        return '\n'.join(parts)

    def _ctext(self, f):
        t = f[0]
        if t == 'obj':
            return f'<obj {f[1]}>'
        if t == 'dict':
            return '{' + ','.join(f'{k!r}:{self._ctext(x)}' for k, x in sorted(f[1], key=lambda kv: repr(kv[0]))) + '}'
        if t in ('list', 'tuple'):
            return t + '(' + ','.join(self._ctext(x) for x in f[1]) + ')'
        if t in ('set', 'frozenset'):
            return t + repr(f[1])
        if t == 'method':
            return f'<method {f[1]}.{f[2]}>'
        if t == 'ndarray':
            return f'<ndarray {f[1].dtype.str} {f[1].shape} {sha(f[1].tobytes())}>'
        v = f[1]
        if v is None or isinstance(v, (bool, int, float, str, bytes)):
            return repr(v)
        if isinstance(v, PurePath):
            return f'Path({str(v)!r})'
        if isinstance(v, np.dtype):
            return f'dtype({v.str})'
        if isinstance(v, np.generic):
            return f'np({v.dtype.str},{v!r})'
        if isinstance(v, (types.FunctionType, types.BuiltinFunctionType)):
            return f'<function {getattr(v, "__qualname__", "?")}>'
        # anything else (an open file, a memmap ...): its type and openness, so that
        # a handle that leaks a resource between operations is a different state.
        return f'<{type(v).__name__} closed={getattr(v, "closed", None)}>'


class State:
    __slots__ = ('files', 'objs', 'model', 'canon')

    def __init__(self, files, objs, model, canon):
        self.files, self.objs, self.model, self.canon = files, objs, model, canon


class StepResult:
    __slots__ = ('label', 'violations', 'diverged')

    def __init__(self, label, violations=(), diverged=False):
        self.label = label
        self.violations = list(violations)
        self.diverged = diverged


class System:
    """Base class: subclasses provide build/enabled/step/invariant/copy_model/model_canon."""
    root = None          # directory that contains every file of this configuration
    handles = None       # name -> live object

    def build(self):                      # pragma: no cover - interface
        raise NotImplementedError

    def enabled(self):
        raise NotImplementedError

    def step(self, op):
        raise NotImplementedError

    def invariant(self):
        return []

    def copy_model(self):
        raise NotImplementedError

    def set_model(self, m):
        raise NotImplementedError

    def model_canon(self):
        raise NotImplementedError

    def abstract(self):
        """Short JSON-able description of the current model state (for replays)."""
        return {}

    # -- generic -----------------------------------------------------------
    def capture(self):
        files = snapshot.snap(self.root)
        oc = ObjCapture(self.handles)
        canon = sha(snapshot.digest(files), oc.canon(), self.model_canon())
        return State(files, oc, self.copy_model(), canon)

    def restore(self, st):
        snapshot.restore(self.root, st.files)
        self.handles = st.objs.restore()
        self.set_model(st.model)


def blames_darr(exc):
    """Did the exception come out of the code under test (a frame in <repo>/darr)?"""
    import traceback
    from ..common import REPO
    root = os.path.join(os.path.realpath(REPO), 'darr') + os.sep
    return any(os.path.realpath(fs.filename).startswith(root)
               for fs in traceback.extract_tb(exc.__traceback__))


def safe_step(S, op):
    """S.step(op); an exception escaping from Darr while the harness observes the
    result is a violation (any oracle), not a harness failure."""
    try:
        return S.step(op)
    except Exception as e:  # noqa: BLE001
        if not blames_darr(e):
            raise
        opdesc = '/'.join(str(x) for x in op)
        return StepResult(f'unobservable:{type(e).__name__}',
                          [({'oracle': '*', 'op': opdesc, 'symptom': f'state unobservable after the call: {type(e).__name__}'},
                            f'after {opdesc} the array cannot be observed any more: {e!r}', {})],
                          diverged=True)


def safe_invariant(S):
    try:
        return S.invariant()
    except Exception as e:  # noqa: BLE001
        if not blames_darr(e):
            raise
        return [({'oracle': '*', 'op': 'observe', 'symptom': f'state unobservable: {type(e).__name__}'},
                 f'the state cannot be observed: {e!r}', {})]


class GraphResult:
    def __init__(self):
        self.states = 0
        self.transitions = 0
        self.max_depth = 0
        self.pruned = 0
        self.outcomes = collections.defaultdict(collections.Counter)  # op name -> label -> n
        self.violations = []     # (signature, what, replay)
        self.validated = 0
        self.closed = False
        self.bound_hits = 0
        self.samples = []
        self.cap_hit = None

    def summary(self):
        return {'states': self.states, 'transitions': self.transitions,
                'max_depth': self.max_depth, 'pruned_transitions': self.pruned,
                'validated': self.validated, 'closed': self.closed,
                'bound_hits': self.bound_hits,
                'outcomes': {k: dict(v) for k, v in sorted(self.outcomes.items())}}


def op_name(op):
    return op[0] if isinstance(op, (tuple, list)) else str(op)


ROOT = 'g'     # every System lives in ./g relative to the working directory of its process


def explore(make_system, cfg, validate_every=10, max_states=200000, keep=None, procs=1):
    """BFS to a fixpoint.  make_system(cfg) -> System (not yet built).
    keep: set of oracle tags whose violations are reported (others only prune).
    procs > 1: level-synchronous parallel expansion (children expand slices of the
    frontier in private working directories; the coordinator owns the seen-set and
    re-executes the one transition that leads to each genuinely new state)."""
    base = fresh_dir('graph')
    old_cwd = os.getcwd()
    os.chdir(base)
    try:
        return _explore(make_system, cfg, validate_every, max_states, keep, procs)
    finally:
        os.chdir(old_cwd)
        rmtree(base)


def _explore(make_system, cfg, validate_every, max_states, keep, procs):
    S = make_system(cfg)
    S.root = ROOT
    res = GraphResult()
    start_viol = S.build()
    if start_viol:
        for (sig, what, detail) in start_viol:
            res.violations.append((dict(sig, stage='start'), what,
                                   {'config': cfg, 'history': [], 'detail': detail}))
        return res

    def record(viols, hist):
        for (sig, what, detail) in viols:
            if keep is not None and sig.get('oracle') not in keep and sig.get('oracle') != '*':
                continue
            res.violations.append((sig, what, {'config': cfg, 'history': hist, 'detail': detail}))

    init = S.capture()
    states = [init]
    seen = {init.canon: 0}
    parent = {0: None}
    depth = {0: 0}
    record(safe_invariant(S), [])

    def history(sid):
        h = []
        while parent[sid] is not None:
            sid, op = parent[sid]
            h.append(op)
        h.reverse()
        return h

    def expand(sids, private=False):
        if private:                      # forked child: own directory, same relative paths
            os.chdir(fresh_dir('lvl'))
        out = []
        for sid in sids:
            S.restore(states[sid])
            ops, disabled = S.enabled()
            rows = []
            for op in ops:
                S.restore(states[sid])
                r = safe_step(S, op)
                canon = None if r.diverged else S.capture().canon
                rows.append((list(op), r.label, r.violations, r.diverged, canon))
            out.append((sid, disabled, rows))
        return out

    level = [0]
    while level and res.cap_hit is None:
        if procs > 1 and len(level) >= 2 * procs:
            slices = [level[i::procs] for i in range(procs)]
            parts = fork_map(lambda sl: expand(sl, private=True), slices, procs=procs)
            bysid = {sid: (dis, rows) for part in parts for (sid, dis, rows) in part}
            outs = [(sid,) + bysid[sid] for sid in level]
        else:
            outs = expand(level)
        nxt = []
        for sid, disabled, rows in outs:
            res.bound_hits += disabled
            hist = None
            for op, label, viols, diverged, canon in rows:
                res.transitions += 1
                res.outcomes[op_name(op)][label] += 1
                if viols:
                    hist = hist if hist is not None else history(sid)
                    record(viols, hist + [op])
                if diverged:
                    res.pruned += 1
                    continue
                if canon in seen:
                    continue
                # materialise the new state in this process
                S.restore(states[sid])
                safe_step(S, tuple(op))
                st = S.capture()
                if st.canon != canon:
                    raise HarnessError(f'nondeterministic transition {op} from state {sid} of {cfg}')
                nid = len(states)
                seen[canon] = nid
                states.append(st)
                parent[nid] = (sid, op)
                depth[nid] = depth[sid] + 1
                res.max_depth = max(res.max_depth, depth[nid])
                iv = safe_invariant(S)
                if iv:
                    record(iv, history(nid))
                nxt.append(nid)
                if len(states) >= max_states:
                    res.cap_hit = max_states
                    break
            if res.cap_hit:
                break
        level = nxt
    res.states = len(states)
    res.closed = res.cap_hit is None

    # -- validate restore fidelity: replay shortest histories from scratch -----
    ids = list(range(len(states)))
    deepest = [i for i in ids if depth[i] == res.max_depth]
    if validate_every <= 1:
        chosen = ids
    else:
        chosen = sorted(set(ids[::validate_every]) | set(deepest[:20]))

    def validate(sids, private=False):
        if private:
            os.chdir(fresh_dir('val'))
        n = 0
        for sid in sids:
            h = history(sid)
            S2 = make_system(cfg)
            S2.root = ROOT
            rmtree(ROOT)
            if S2.build():
                raise HarnessError(f'start state not reproducible for {cfg}')
            for op in h:
                S2.step(tuple(op))
            if S2.capture().canon != states[sid].canon:
                raise HarnessError(
                    f'restore/replay mismatch in {cfg}: history {h} reaches a different state '
                    f'when executed from scratch (checkpointing is not faithful)')
            n += 1
        return n

    if procs > 1 and len(chosen) >= 2 * procs:
        res.validated = sum(fork_map(lambda sl: validate(sl, private=True),
                                     [chosen[i::procs] for i in range(procs)], procs=procs))
    else:
        res.validated = validate(chosen)
    if len(states) > 1:
        res.samples = [history(min(3, len(states) - 1)), history(deepest[0])]
    return res


def replay_history(make_system, cfg, hist, keep=None):
    """Plain re-execution of one history with no explorer around it.
    Returns the list of violations observed along the way."""
    base = fresh_dir('replay')
    old_cwd = os.getcwd()
    os.chdir(base)
    try:
        return _replay_history(make_system, cfg, hist, keep)
    finally:
        os.chdir(old_cwd)
        rmtree(base)


def _replay_history(make_system, cfg, hist, keep):
    S = make_system(cfg)
    S.root = ROOT
    out = []
    v = S.build()
    out += [(s, w, d) for (s, w, d) in (v or [])]
    if not v:
        out += safe_invariant(S)
        for op in hist:
            r = safe_step(S, tuple(op))
            out += r.violations
            if r.diverged:
                break
            out += safe_invariant(S)
    if keep is not None:
        out = [x for x in out if x[0].get('oracle') in keep or x[0].get('oracle') == '*'
               or x[0].get('stage') == 'start']
    return out

"""E5: stateless exploration of every interleaving of a set of actors, one process per execution.

A *world* (supplied by the check) knows how to build a fresh system, which actions are enabled in an
abstract state, how to perform one action on the real objects (returning oracle violations) and how to
canonicalise the complete state from inside the process that is in it.  The explorer runs a
breadth-first search over action histories to a fixpoint:

    frontier <- {[]}
    for each history h in the frontier, for each action a enabled after h:
        fork a child;  child: build, replay h, perform a, evaluate oracles, canonicalise, report, _exit
        a child that dies from a signal / hangs is a violation whose replay is h + [a]
        an unseen canon joins the next frontier (represented by the history that reached it)

Every execution is a real run of the implementation in a fresh process, so a crash of the interpreter is
observed rather than suffered, and nothing leaks from one execution into another.  Deduplication is by the
canonical state computed in the child (abstract actor positions + implementation internals + open
descriptors/maps), so merged states have the same futures.
"""
import os
import pickle
import signal
import time

from ..common import NCPU, fork_map, fresh_dir, rmtree


class Result:
    def __init__(self):
        self.states = 0
        self.executions = 0
        self.max_depth = 0
        self.violations = []          # (signature, what, {'schedule': [...]})
        self.outcomes = {}            # action name -> {label: n}
        self.closed = False
        self.cap_hit = None
        self.crashed = 0
        self.samples = []
        self.flags = {}               # coverage flags OR-ed over all executions
        self.replayed = 0


def run_child(world_factory, history, action, timeout=60):
    """Execute history + [action] in a forked child.  Returns a dict:
    {'status': 'ok', 'canon':…, 'abstract':…, 'label':…, 'violations':[…], 'flags': {...}}
    or {'status': 'signal', 'signal': n} / {'status': 'timeout'} / {'status': 'error', 'text': …}."""
    wd = fresh_dir('exec')          # private to this execution, removed by the parent (also after a crash)
    try:
        return _run_child(world_factory, history, action, timeout, wd)
    finally:
        rmtree(wd)


def _run_child(world_factory, history, action, timeout, wd):
    r, w = os.pipe()
    pid = os.fork()
    if pid == 0:
        code = 0
        try:
            os.close(r)
            signal.alarm(timeout)
            world = world_factory(wd)
            world.build()
            for act in history:
                world.perform(tuple(act), checking=False)
            viols, label = ([], 'init') if action is None else world.perform(tuple(action), checking=True)
            viols = list(viols) + list(world.state_invariant())
            out = {'status': 'ok', 'canon': world.canon(), 'abstract': world.abstract(), 'label': label,
                   'violations': viols, 'flags': world.flags(), 'enabled': world.enabled()}
            with os.fdopen(w, 'wb') as f:
                f.write(pickle.dumps(out))
        except BaseException:  # noqa: BLE001
            import traceback
            try:
                with os.fdopen(w, 'wb') as f:
                    f.write(pickle.dumps({'status': 'error', 'text': traceback.format_exc()}))
            except BaseException:  # noqa: BLE001
                code = 3
        finally:
            os._exit(code)
    os.close(w)
    buf = bytearray()
    with os.fdopen(r, 'rb') as f:
        while True:
            d = f.read(1 << 16)
            if not d:
                break
            buf += d
    _, status = os.waitpid(pid, 0)
    if os.WIFSIGNALED(status):
        sig = os.WTERMSIG(status)
        if sig == signal.SIGALRM:
            return {'status': 'timeout'}
        return {'status': 'signal', 'signal': sig}
    if not buf:
        return {'status': 'error', 'text': f'child exited with status {status} and no report'}
    return pickle.loads(bytes(buf))


def explore(world_factory, max_states=200000, procs=None, progress=None):
    """world_factory: picklable-free callable (children are forks) returning a fresh world."""
    res = Result()
    procs = procs or NCPU
    init = run_child(world_factory, [], None)
    if init['status'] != 'ok':
        raise RuntimeError(f'initial state cannot be built: {init}')
    seen = {init['canon']: []}
    for v in init['violations']:
        res.violations.append((v[0], v[1], {'schedule': [], 'detail': v[2]}))
    level = [([], init['enabled'])]
    depth = 0
    while level and res.cap_hit is None:
        tasks = [(h, a) for (h, en) in level for a in en]

        def work(task):
            h, a = task
            return run_child(world_factory, h, a)
        outs = fork_map(work, tasks, procs=procs, chunk=max(1, min(64, len(tasks) // (procs * 4) or 1)))
        nxt = []
        depth += 1
        for (h, a), out in zip(tasks, outs):
            res.executions += 1
            name = a[0]
            sched = [list(x) for x in h] + [list(a)]
            if out['status'] != 'ok':
                res.crashed += 1
                if out['status'] == 'signal':
                    label = f"killed by signal {out['signal']}"
                    try:
                        label += f' ({signal.Signals(out["signal"]).name})'
                    except ValueError:
                        pass
                elif out['status'] == 'timeout':
                    label = 'hangs'
                else:
                    raise RuntimeError(f'child failed in the harness for schedule {sched}:\n{out.get("text")}')
                res.outcomes.setdefault(name, {}).setdefault(label, 0)
                res.outcomes[name][label] += 1
                res.violations.append(({'oracle': 'sched', 'op': name, 'symptom': 'interpreter ' + label},
                                       f'schedule {fmt(sched)}: the interpreter is {label}', {'schedule': sched}))
                continue
            res.outcomes.setdefault(name, {}).setdefault(out['label'], 0)
            res.outcomes[name][out['label']] += 1
            for k, v in out['flags'].items():
                if v:
                    res.flags[k] = res.flags.get(k, 0) + 1
            if out['violations']:
                for v in out['violations']:
                    res.violations.append((v[0], f'schedule {fmt(sched)}: {v[1]}', {'schedule': sched, 'detail': v[2]}))
                if any(v[0].get('diverged', True) for v in out['violations']):
                    continue               # model and implementation have parted: do not expand
            if out['canon'] not in seen:
                seen[out['canon']] = sched
                nxt.append((sched, out['enabled']))
                res.max_depth = depth
                if len(seen) >= max_states:
                    res.cap_hit = max_states
                    break
        level = nxt
        if progress:
            progress(depth, len(seen), res.executions)
    res.states = len(seen)
    res.closed = res.cap_hit is None
    hs = sorted(seen.values(), key=len)
    res.samples = [hs[min(5, len(hs) - 1)], hs[-1]]
    res.histories = seen
    return res


def fmt(sched):
    return '; '.join(' '.join(str(x) for x in a) for a in sched)

"""E2: complete enumeration of finite products of small input domains.

A check supplies named finite domains, an optional validity filter and an evaluation
function; the engine enumerates the product in a fixed order (simplest first), shards it
over forked workers, and reports evaluations, distinct non-trivial classes, per-dimension
coverage and whether the enumeration was complete.  No random choice decides which cases
run; VERIF_SEED only changes payload bit patterns.
"""
import importlib
import itertools
import os

from ..common import NCPU, fork_map, fresh_dir, jdump, rmtree
from ..report import HarnessError, Reporter


def product(dims, valid=None):
    """dims: ordered {name: [values]} -> list of case dicts, first dimension slowest."""
    names = list(dims)
    out = []
    for combo in itertools.product(*[dims[n] for n in names]):
        case = dict(zip(names, combo))
        if valid is None or valid(case):
            out.append(case)
    return out


def _resolve(ref):
    mod, name = ref.split(':')
    return getattr(importlib.import_module(mod), name)


def _eval_chunk(args):
    ref, cases = args
    fn = _resolve(ref)
    wd = fresh_dir('enum')
    old = os.getcwd()
    os.chdir(wd)
    out = []
    try:
        for c in cases:
            try:
                r = fn(c)
            except Exception as e:  # noqa: BLE001
                # an exception escaping from the code under test in a place where the check does not expect one
                # (set-up, observation) is a finding about that code, not a failure of the machinery
                from .opgraph import blames_darr
                if not blames_darr(e):
                    raise
                r = ([({'oracle': 'unexpected', 'op': 'evaluate', 'symptom': f'unexpected {type(e).__name__} from Darr'},
                       f'evaluating this case, Darr raised {e!r:.200} where no exception is possible on a correct tree', {})],
                     None, 1)
            # r: (violations, class label or None, extra-evaluations)
            out.append(r)
    finally:
        os.chdir(old)
        rmtree(wd)
    return out


def run_enum(prop, tier, evalref, cases, *, rule, assumptions=(), chunk=32, level='exploration',
             subproducts=None, extra_cov=None, dims=None, engine='enum', min_classes=2, reporter=None, class_guard=None):
    """evalref: 'module:function'; function(case) -> (violations, klass, n_evaluations).
    klass: hashable label of the behaviour class the case exercised (None = trivial)."""
    rep = reporter or Reporter(prop, tier, engine)
    cases = list(cases)
    if not cases:
        raise HarnessError('empty enumeration')
    chunks = [(evalref, cases[i:i + chunk]) for i in range(0, len(cases), chunk)]
    parts = fork_map(_eval_chunk, chunks, procs=NCPU, on_death=lambda job, status: ('DIED', status))
    # a worker that was killed (e.g. SIGSEGV from reading unmapped memory) took its whole chunk with it: evaluate
    # the cases of such chunks one per process, so that the culprit is identified and reported as a violation
    for ci, part in enumerate(parts):
        if isinstance(part, tuple) and part and part[0] == 'DIED':
            singles = fork_map(_eval_chunk, [(evalref, [c]) for c in chunks[ci][1]], procs=NCPU,
                               on_death=lambda job, status: ('DIED', status), always_fork=True)
            fixed = []
            for c, one in zip(chunks[ci][1], singles):
                if isinstance(one, tuple) and one and one[0] == 'DIED':
                    st = one[1]
                    import signal as _sg
                    name = _sg.Signals(st & 0x7f).name if (st & 0x7f) else f'status {st}'
                    fixed.append(([({'oracle': 'crash', 'op': 'evaluate', 'symptom': f'interpreter killed ({name})'},
                                    f'evaluating this case killed the interpreter ({name})', {})], None, 1))
                else:
                    fixed.extend(one)
            parts[ci] = fixed
    classes = set()
    evaluations = 0
    i = 0
    for part in parts:
        for (viols, klass, nev) in part:
            evaluations += nev
            if klass is not None:
                if isinstance(klass, (list, set, tuple)) and not isinstance(klass, str):
                    classes.update(klass)
                else:
                    classes.add(klass)
            for (sig, what, detail) in viols:
                rep.violation(sig, what, {'case': cases[i], 'detail': detail, 'evalref': evalref})
            i += 1
    if len(classes) < min_classes and rep.n_viol == 0 and not rep.known_hits:
        raise HarnessError(f'vacuous enumeration: only {len(classes)} distinct non-trivial classes')
    guard_cov = None
    if class_guard is not None:
        problems, guard_cov = class_guard(classes)
        if problems and rep.n_viol == 0 and not rep.known_hits:
            raise HarnessError('vacuous enumeration: ' + '; '.join(problems[:6]))
    cov = {
        'evaluations': evaluations, 'distinct_nontrivial': len(classes),
        'cases': len(cases), 'rule': rule, 'exhaustive': True,
        'samples': [cases[0], cases[len(cases) // 2], cases[-1]],
        'completed_subproducts': subproducts or ['the full product described in rule'],
    }
    if dims:
        # vacuity guard: every value of every dimension occurs in an evaluated case
        for name, vals in dims.items():
            seen = {jdump(c.get(name)) for c in cases if name in c}
            missing = [v for v in vals if jdump(v) not in seen]
            if missing:
                raise HarnessError(f'dimension {name}: values {missing[:3]} never evaluated')
        cov['dimensions'] = {k: len(v) for k, v in dims.items()}
    if extra_cov:
        cov.update(extra_cov)
    if guard_cov:
        cov.update(guard_cov)
    return rep.finish(level, cov, assumptions)


def replay_case(rec):
    """Replay artefact of an E2 check: evaluate the one case again, twice, each time in its own process (a case that
    kills the interpreter must not take the replay command down with it)."""
    runs = []
    for _ in range(2):
        out = fork_map(_eval_chunk, [(rec['evalref'], [rec['case']])], procs=1, always_fork=True,
                       on_death=lambda job, status: ('DIED', status))[0]
        if isinstance(out, tuple) and out and out[0] == 'DIED':
            runs.append([('"crash"', f'evaluating the case killed the interpreter (wait status {out[1]})')])
            continue
        viols, klass, _n = out[0]
        runs.append([(jdump(s), w) for (s, w, d) in viols])
    if runs[0] != runs[1]:
        print('REPLAY NOT DETERMINISTIC')
        return 2
    print(f"replay of {rec['property']} case {jdump(rec['case'])}:")
    want = jdump(rec.get('signature'))
    hit = [x for x in runs[0] if x[0] == want] or runs[0]
    if not hit:
        print('  no violation observed')
        return 0
    for s, w in hit:
        print(f'  violation: {w}\n     signature={s}')
    return 1

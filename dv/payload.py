"""Deterministic payloads: values are a function of (colour, position, seed) only,
distinct per byte lane where the type allows, and free of casts NumPy leaves undefined."""
import numpy as np

from .common import seed

NUMTYPES = ['int8', 'int16', 'int32', 'int64', 'uint8', 'uint16', 'uint32', 'uint64',
            'float16', 'float32', 'float64', 'complex64', 'complex128']

ALL_DTYPES = []
for _n in NUMTYPES:
    _dt = np.dtype(_n)
    if _dt.itemsize == 1:
        ALL_DTYPES.append(_dt.str)
    else:
        ALL_DTYPES += [_dt.newbyteorder('<').str, _dt.newbyteorder('>').str]
# 24 distinct (type, byte order) pairs: int8/uint8 have no byte order

COLOUR_BASE = {'A': 3, 'B': 23, 'C': 43, 'G': 61, 'H': 79, 'V1': 97, 'V2': 107, 'I': 13, 'J': 31}


def prod(t):
    n = 1
    for x in t:
        n *= int(x)
    return n


def values(colour, nrows, trail, dtype):
    """ndarray of shape (nrows,)+trail and the given dtype (byte order included)."""
    dtype = np.dtype(dtype)
    count = nrows * prod(trail)
    base = COLOUR_BASE[colour] + (seed() * 5) % 11
    k = np.arange(count, dtype='int64')
    v = (base + 7 * k) % 113 + 1                 # 1..113: fits every type incl. int8
    if dtype.kind == 'f':
        out = v.astype('float64') + 0.5
    elif dtype.kind == 'c':
        out = (v.astype('float64') + 0.5) + 1j * (0.25 - v.astype('float64'))
    else:
        out = v
    return out.astype(dtype).reshape((nrows,) + tuple(trail))


def other_dtype_source(colour, nrows, trail, target):
    """Same values as `values`, but held in an array of another dtype, the other byte
    order and a non-contiguous (every-other-row) layout.  Casting it to `target` is
    well defined (integral values within range)."""
    target = np.dtype(target)
    ref = values(colour, nrows, trail, target)
    if target.kind in 'iu':
        src_dt = np.dtype('>f8')
        data = ref.astype('float64')
    elif target.kind == 'f':
        # integers, so drop the fraction: recompute reference accordingly
        src_dt = np.dtype('>i4')
        data = np.floor(ref.astype('float64'))
    else:
        src_dt = np.dtype('>f4')
        data = np.floor(ref.real.astype('float64'))
    big = np.zeros((2 * nrows,) + tuple(trail), dtype=src_dt)
    big[::2] = data
    big[1::2] = -1
    src = big[::2]
    assert nrows == 0 or not src.flags['C_CONTIGUOUS'] or src.shape[0] <= 1
    return src


def special_values(dtype):
    """Values whose bit patterns matter (NaN payloads, -0.0, inf, subnormals, extremes)."""
    dtype = np.dtype(dtype)
    if dtype.kind in 'iu':
        info = np.iinfo(dtype)
        return np.array([info.min, info.max, 0, 1, info.max - 1, info.min + 1], dtype=dtype)
    if dtype.kind == 'f':
        fi = np.finfo(dtype)
        u = {2: 'u2', 4: 'u4', 8: 'u8'}[dtype.itemsize]
        nanbits = {2: 0x7e01, 4: 0x7fc00123, 8: 0x7ff8000000000abc}[dtype.itemsize]
        nan = np.array([nanbits], dtype=u).view(dtype.newbyteorder('='))[0]
        vals = [0.0, -0.0, np.inf, -np.inf, fi.tiny, fi.smallest_subnormal, fi.max, -fi.max, 1.5]
        a = np.array(vals, dtype=dtype.newbyteorder('='))
        a = np.concatenate([a, np.array([nan], dtype=a.dtype)])
        return a.astype(dtype)
    if dtype.kind == 'c':
        f = special_values(np.dtype(f'f{dtype.itemsize // 2}'))
        a = f.astype(dtype.newbyteorder('='))
        a.imag = f[::-1]
        return a.astype(dtype)
    raise ValueError(dtype)


def same_bits(a, b):
    """dtype (byte order included), shape and every bit equal."""
    a = np.asarray(a)
    b = np.asarray(b)
    return a.dtype.str == b.dtype.str and a.shape == b.shape and a.tobytes() == b.tobytes()


def lane_distinct(dtype, shape, salt=0):
    """Array whose elements have pairwise different bytes in every byte lane (so that any permutation of bytes
    or of elements is visible) and are finite for floating types.  Deterministic in (dtype, shape, salt, seed)."""
    dtype = np.dtype(dtype)
    count = prod(shape)
    n = dtype.itemsize
    fsz = {'f': n, 'c': n // 2}.get(dtype.kind)
    k = np.arange(count, dtype='int64')[:, None]
    j = np.arange(n, dtype='int64')[None, :]
    b = ((17 + 31 * k + 7 * j + 13 * salt + 5 * seed()) % 199 + 23).astype('uint8')     # 23..221, distinct per lane for count < 199
    if fsz:
        # the byte holding sign + high exponent bits must not make the exponent all ones (inf / nan):
        # that lane draws from the allowed byte values only (still pairwise distinct)
        mask = 0x7c if fsz == 2 else 0x7f
        allowed = np.array([v for v in range(23, 222) if (v & mask) != mask], dtype='uint8')
        for part in range(n // fsz):
            msb = part * fsz + (fsz - 1)        # little-endian layout is built here
            b[:, msb] = allowed[(17 + 31 * k[:, 0] + 7 * msb + 13 * salt + 5 * seed()) % len(allowed)]
    le = b.reshape(-1).view(dtype.newbyteorder('<'))
    out = le.astype(dtype).reshape(shape)
    return out

"""Shared plumbing: environment checks, scratch space, seeds, parallel map."""
import atexit
import hashlib
import json
import multiprocessing as mp
import os
import shutil
import sys
import tempfile
import time
import warnings

VERIF = os.path.dirname(os.path.dirname(os.path.abspath(__file__)))
REPO = os.environ.get('DV_REPO', '/repo')
NCPU = int(os.environ.get('DV_NCPU', '0')) or min(16, os.cpu_count() or 1)

warnings.simplefilter('ignore')


def seed():
    try:
        return int(os.environ.get('VERIF_SEED', '0'))
    except ValueError:
        return 0


def tier_from_env(default='quick'):
    t = os.environ.get('VERIF_TIER', default)
    return t if t in ('quick', 'thorough') else default


_DARR = None


def import_darr():
    """Import darr from the tree under test and make sure it is that tree."""
    global _DARR
    if _DARR is not None:
        return _DARR
    repo = os.path.realpath(REPO)
    if repo != '/repo':
        sys.path.insert(0, repo)
    import darr
    f = os.path.realpath(darr.__file__)
    if not f.startswith(repo + os.sep):
        raise SystemExit(f"HARNESS ERROR: darr imported from {f}, not from {repo}")
    _DARR = darr
    return darr


_SCRATCH_ROOT = None
_OWNER_PID = None


def scratch_root():
    """Private scratch directory on tmpfs, removed at exit of the creating process."""
    global _SCRATCH_ROOT, _OWNER_PID
    if _SCRATCH_ROOT is None or _OWNER_PID != os.getpid() and not os.path.isdir(_SCRATCH_ROOT):
        base = '/dev/shm' if os.path.isdir('/dev/shm') and os.access('/dev/shm', os.W_OK) else None
        _SCRATCH_ROOT = tempfile.mkdtemp(prefix='dv-', dir=base)
        _OWNER_PID = os.getpid()
        atexit.register(_cleanup, _SCRATCH_ROOT, _OWNER_PID)
    return _SCRATCH_ROOT


def _cleanup(path, pid):
    if os.getpid() == pid:
        shutil.rmtree(path, ignore_errors=True)


_counter = [0]


def fresh_dir(prefix='w'):
    """A new empty directory below the scratch root (unique per process)."""
    _counter[0] += 1
    p = os.path.join(scratch_root(), f'{prefix}-{os.getpid()}-{_counter[0]}')
    os.makedirs(p)
    return p


def rmtree(p):
    shutil.rmtree(p, ignore_errors=True)


def sha(*parts):
    h = hashlib.sha1()
    for p in parts:
        if isinstance(p, str):
            p = p.encode('utf-8', 'surrogatepass')
        h.update(p)
        h.update(b'\x00')
    return h.hexdigest()


def jdump(obj):
    return json.dumps(obj, sort_keys=True, default=jsonable, ensure_ascii=True)


def jsonable(o):
    """Best-effort conversion of the things that end up in replays and evidence."""
    import numpy as np
    from pathlib import PurePath
    if isinstance(o, np.ndarray):
        return {'ndarray': o.tolist() if o.size <= 64 else f'<{o.size} values>',
                'dtype': o.dtype.str, 'shape': list(o.shape)}
    if isinstance(o, np.generic):
        return o.item()
    if isinstance(o, np.dtype):
        return o.str
    if isinstance(o, (bytes, bytearray)):
        return {'bytes_hex': bytes(o[:64]).hex(), 'len': len(o)}
    if isinstance(o, PurePath):
        return str(o)
    if isinstance(o, (set, frozenset)):
        return sorted(map(str, o))
    if isinstance(o, tuple):
        return list(o)
    if isinstance(o, BaseException):
        return f'{type(o).__name__}: {o}'
    if isinstance(o, type):
        return o.__name__
    return repr(o)


def _pool_init():
    warnings.simplefilter('ignore')


def pmap(func, items, procs=None, chunksize=1):
    """Deterministic parallel map (results in input order).  Workers are forked,
    so they share the already imported tree under test."""
    items = list(items)
    procs = min(procs or NCPU, max(1, len(items)))
    if procs <= 1 or os.environ.get('DV_SERIAL'):
        return [func(i) for i in items]
    ctx = mp.get_context('fork')
    with ctx.Pool(procs, initializer=_pool_init) as pool:
        return pool.map(func, items, chunksize=chunksize)


class Timer:
    def __init__(self):
        self.t0 = time.time()

    def __call__(self):
        return round(time.time() - self.t0, 3)


def exc_class(e):
    return type(e).__name__


def outcome_of(fn):
    """Run fn(); return ('returns', value) or ('raises', exception).  BaseException
    subclasses that are not Exception (StopIteration is an Exception) propagate."""
    try:
        return 'returns', fn()
    except Exception as e:  # noqa: BLE001 - the class is what we examine
        return 'raises', e

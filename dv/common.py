"""Shared plumbing: environment checks, scratch space, seeds, parallel map."""
import atexit
import hashlib
import json
import os
import shutil
import sys
import tempfile
import time
import warnings

VERIF = os.path.dirname(os.path.dirname(os.path.abspath(__file__)))
REPO = os.environ.get('DV_REPO', '/repo')
NCPU = int(os.environ.get('DV_NCPU', '0')) or min(16, os.cpu_count() or 1)

warnings.simplefilter('ignore')


def seed():
    try:
        return int(os.environ.get('VERIF_SEED', '0'))
    except ValueError:
        return 0


def tier_from_env(default='quick'):
    t = os.environ.get('VERIF_TIER', default)
    return t if t in ('quick', 'thorough') else default


_DARR = None


def import_darr():
    """Import darr from the tree under test and make sure it is that tree."""
    global _DARR
    if _DARR is not None:
        return _DARR
    repo = os.path.realpath(REPO)
    if repo != '/repo':
        sys.path.insert(0, repo)
    import darr
    f = os.path.realpath(darr.__file__)
    if not f.startswith(repo + os.sep):
        raise SystemExit(f"HARNESS ERROR: darr imported from {f}, not from {repo}")
    _DARR = darr
    return darr


_SCRATCH_ROOT = None
_OWNER_PID = None


def scratch_root():
    """Private scratch directory on tmpfs, removed at exit of the creating process."""
    global _SCRATCH_ROOT, _OWNER_PID
    if _SCRATCH_ROOT is None:
        base = '/dev/shm' if os.path.isdir('/dev/shm') and os.access('/dev/shm', os.W_OK) else None
        _SCRATCH_ROOT = tempfile.mkdtemp(prefix='dv-', dir=base)
        _OWNER_PID = os.getpid()
        atexit.register(_cleanup, _SCRATCH_ROOT, _OWNER_PID)
    return _SCRATCH_ROOT


def _cleanup(path, pid):
    if os.getpid() == pid:
        shutil.rmtree(path, ignore_errors=True)


_counter = [0]


def fresh_dir(prefix='w'):
    """A new empty directory below the scratch root (unique per process)."""
    _counter[0] += 1
    p = os.path.join(scratch_root(), f'{prefix}-{os.getpid()}-{_counter[0]}')
    os.makedirs(p)
    return p


def rmtree(p):
    shutil.rmtree(p, ignore_errors=True)


def sha(*parts):
    h = hashlib.sha1()
    for p in parts:
        if isinstance(p, str):
            p = p.encode('utf-8', 'surrogatepass')
        h.update(p)
        h.update(b'\x00')
    return h.hexdigest()


def jdump(obj):
    return json.dumps(obj, sort_keys=True, default=jsonable, ensure_ascii=True)


def jsonable(o):
    """Best-effort conversion of the things that end up in replays and evidence."""
    import numpy as np
    from pathlib import PurePath
    if isinstance(o, np.ndarray):
        return {'ndarray': o.tolist() if o.size <= 64 else f'<{o.size} values>',
                'dtype': o.dtype.str, 'shape': list(o.shape)}
    if isinstance(o, np.generic):
        return o.item()
    if isinstance(o, np.dtype):
        return o.str
    if isinstance(o, (bytes, bytearray)):
        return {'bytes_hex': bytes(o[:64]).hex(), 'len': len(o)}
    if isinstance(o, PurePath):
        return str(o)
    if isinstance(o, (set, frozenset)):
        return sorted(map(str, o))
    if isinstance(o, tuple):
        return list(o)
    if isinstance(o, BaseException):
        return f'{type(o).__name__}: {o}'
    if isinstance(o, type):
        return o.__name__
    return repr(o)


def fork_map(func, items, procs=None, chunk=1, on_death=None, always_fork=False):
    """Deterministic parallel map over forked children (results in input order).

    Own implementation instead of multiprocessing.Pool so that it can be nested
    (graph-level and level-synchronous parallelism), so that closures over live
    state work (children are forks of the caller), and so that a child killed by a
    signal is reported instead of hanging the pool.  A child failure raises."""
    import pickle
    import selectors
    import traceback
    items = list(items)
    procs = min(procs or NCPU, max(1, -(-len(items) // chunk)))
    if (procs <= 1 and not always_fork) or (os.environ.get('DV_SERIAL') and not always_fork):
        return [func(i) for i in items]
    procs = max(1, procs)
    scratch_root()                       # children must share the parent's root
    chunks = [items[i:i + chunk] for i in range(0, len(items), chunk)]
    results = [None] * len(chunks)
    sel = selectors.DefaultSelector()
    running = {}                         # read fd -> (chunk index, pid, bytearray)
    nxt = 0
    sys.stdout.flush()
    sys.stderr.flush()
    while nxt < len(chunks) or running:
        while nxt < len(chunks) and len(running) < procs:
            r, w = os.pipe()
            pid = os.fork()
            if pid == 0:
                code = 0
                try:
                    os.close(r)
                    try:
                        data = pickle.dumps(('ok', [func(x) for x in chunks[nxt]]))
                    except BaseException:  # noqa: BLE001
                        data = pickle.dumps(('err', traceback.format_exc()))
                    with os.fdopen(w, 'wb') as f:
                        f.write(data)
                except BaseException:  # noqa: BLE001
                    code = 3
                finally:
                    os._exit(code)
            os.close(w)
            running[r] = (nxt, pid, bytearray())
            sel.register(r, selectors.EVENT_READ)
            nxt += 1
        for key, _ in sel.select():
            fd = key.fd
            idx, pid, buf = running[fd]
            data = os.read(fd, 1 << 20)
            if data:
                buf += data
                continue
            sel.unregister(fd)
            os.close(fd)
            del running[fd]
            _, status = os.waitpid(pid, 0)
            if os.WIFSIGNALED(status) or not buf:
                if on_death is not None:
                    # the code under test killed the interpreter: let the caller decide (usually: a violation)
                    results[idx] = [on_death(x, status) for x in chunks[idx]]
                    continue
                raise RuntimeError(f'worker for chunk {idx} died (status {status})')
            kind, val = pickle.loads(bytes(buf))
            if kind == 'err':
                raise RuntimeError('worker failed:\n' + val)
            results[idx] = val
    return [x for c in results for x in c]


def pmap(func, items, procs=None, chunksize=1):
    return fork_map(func, items, procs=procs, chunk=chunksize)


class Timer:
    def __init__(self):
        self.t0 = time.time()

    def __call__(self):
        return round(time.time() - self.t0, 3)


def exc_class(e):
    return type(e).__name__


def outcome_of(fn):
    """Run fn(); return ('returns', value) or ('raises', exception).  BaseException
    subclasses that are not Exception (StopIteration is an Exception) propagate."""
    try:
        return 'returns', fn()
    except Exception as e:  # noqa: BLE001 - the class is what we examine
        return 'raises', e

"""Mini-interpreter for the subset of Scilab needed to read binary data (mopen/mget/mgeti/matrix/squeeze/complex/
mclose/deff/indexing).  Syntax and indexing are close to Matlab's, so the Matlab parser and evaluator are reused
with Scilab's lexical rules and its own builtins (none of Matlab's)."""
import re

import numpy as np

from . import matlab
from .adapters import Adapter
from .core import Inconclusive, LangError, from_column_major, memory_order
from .matlab import Fid, describe, is_num, numeric_scalar, scalar

BASE = {'d': ('f8', 'f'), 'f': ('f4', 'f'), 'l': ('i8', 'i'), 'i': ('i4', 'i'), 's': ('i2', 'i'), 'c': ('i1', 'i')}


def parse_type(fmt, what):
    """'ull' -> (dtype with byte order, is integer)"""
    if not isinstance(fmt, str):
        raise LangError(f'{what}: type must be a string')
    m = re.fullmatch(r'(u?)([dflisc])([lb]?)', fmt)
    if not m:
        raise LangError(f'{what}: invalid binary format {fmt!r}')
    u, b, e = m.groups()
    code, kind = BASE[b]
    if u:
        if kind == 'f':
            raise LangError(f'{what}: invalid binary format {fmt!r} (unsigned floating point)')
        code = 'u' + code[1:]
    dt = np.dtype(code)
    if dt.itemsize > 1:
        dt = dt.newbyteorder({'l': '<', 'b': '>', '': '='}[e])
    return dt


class Parser(matlab.Parser):
    LEX = dict(line_comments=('//',), block_comments=(('/*', '*/'),), strings=("'", '"'))
    KEYWORDS = ('function', 'if', 'for', 'while', 'select', 'try', 'end', 'endfunction', 'global')


class DeffFunc:
    def __init__(self, outvar, params, body):
        self.outvar, self.params, self.body = outvar, params, body


class Interp(matlab.Interp):
    PARSER = Parser
    LANG = 'Scilab'
    BUILTINS = ('mopen', 'mclose', 'mget', 'mgeti', 'matrix', 'squeeze', 'complex', 'deff', 'double')
    UNMODELLED = {'zeros', 'ones', 'size', 'length', 'permute', 'int8', 'int16', 'int32', 'int64', 'uint8', 'uint16',
                  'uint32', 'uint64', 'disp', 'mprintf', 'mseek', 'mtell', 'meof', 'real', 'imag', 'cat', 'isempty', 'resize_matrix',
                  'hypermat', 'mgetl', 'read', 'fscanfMat', 'iconvert', 'ndims', 'execstr'}
    INT_OVERFLOW = 'wrap'

    def call(self, e, env):
        target = e[1]
        if target[0] == 'name' and target[1] in env and isinstance(env[target[1]], DeffFunc):
            f = env[target[1]]
            argv = [self.ev(a, env) for a in e[2]]
            if len(argv) != len(f.params):
                raise LangError(f'function {target[1]} takes {len(f.params)} argument(s)')
            return self.call_deff(f, argv)
        return super().call(e, env)

    def call_deff(self, f, argv):
        local = dict(self.env)            # Scilab functions see the variables of the calling scope
        local.update(zip(f.params, argv))
        sub = Interp(self.fs.cwd)
        sub.fs = self.fs
        sub.env = local
        sub.run(f.body)
        if f.outvar not in sub.env:
            raise LangError(f'function body does not set its output variable {f.outvar}')
        return sub.env[f.outvar]

    # -- builtins --------------------------------------------------------------
    def bi_mopen(self, *a):
        if not a or not isinstance(a[0], str) or len(a) > 3:
            raise LangError('mopen(file [, mode, swap]): file name must be a string')
        mode = 'r'
        if len(a) >= 2:
            if not isinstance(a[1], str):
                raise LangError('mopen: mode must be a string')
            mode = a[1]
        if not re.fullmatch(r'[rwa]\+?[bt]?|[rwa][bt]?\+?', mode):
            raise LangError(f'mopen: invalid mode {mode!r}')
        if mode.replace('b', '').replace('t', '') != 'r':
            raise LangError(f'mopen: mode {mode!r} is not read-only')
        return Fid(self.fs.open(a[0], 'r'))

    def bi_mclose(self, *a):
        if len(a) > 1:
            raise LangError('mclose takes at most one argument')
        if not a or (isinstance(a[0], str) and a[0] == 'all'):
            for h in self.fs.handles.values():
                h.closed = True
            return None
        if not isinstance(a[0], Fid):
            raise LangError('mclose: argument is not a file descriptor')
        a[0].h.closed = True
        return None

    def _mget(self, a, what):
        if not 1 <= len(a) <= 3:
            raise LangError(f'{what}([n, type, fd]) takes at most three arguments')
        n = numeric_scalar(a[0], f'{what} count')
        if n != int(n) or n < 0:
            raise LangError(f'{what}: n must be a non-negative integer')
        fmt = a[1] if len(a) >= 2 else 'l'
        dt = parse_type(fmt, what)
        if len(a) == 3:
            if not isinstance(a[2], Fid):
                raise LangError(f'{what}: third argument must be a file descriptor returned by mopen')
            h = a[2].h
        else:
            raise Inconclusive(f'{what} on the last opened file is not modelled')
        raw = h.take(int(n) * dt.itemsize)
        raw = raw[:len(raw) - len(raw) % dt.itemsize]      # at the end of the file fewer items come back
        vals = np.frombuffer(raw, dtype=dt)
        return vals, dt

    def bi_mget(self, *a):
        vals, dt = self._mget(a, 'mget')
        return vals.astype('f8').reshape(1, -1)          # mget always returns doubles

    def bi_mgeti(self, *a):
        vals, dt = self._mget(a, 'mgeti')
        if dt.kind == 'f':
            raise LangError('mgeti reads integer formats only')
        return vals.astype(dt.newbyteorder('=')).reshape(1, -1)

    def bi_matrix(self, *a):
        if len(a) < 2 or not is_num(a[0]):
            raise LangError('matrix(v, sizes) needs an array and its new sizes')
        dims = memory_order(a[1]).tolist() if len(a) == 2 else [numeric_scalar(x, 'matrix size') for x in a[1:]]
        if any(d == -1 for d in dims):
            raise Inconclusive('matrix() with -1 is not modelled')
        for d in dims:
            if d != int(d) or d < 0:
                raise LangError('matrix: sizes must be non-negative integers')
        dims = [int(d) for d in dims]
        if int(np.prod(dims)) != a[0].size:
            raise LangError(f'matrix: input and output must have the same number of elements ({a[0].size} vs {dims})')
        if len(dims) == 1:
            dims = dims + [1]
        while len(dims) > 2 and dims[-1] == 1:
            dims.pop()
        return from_column_major(memory_order(a[0]), dims)

    def bi_squeeze(self, *a):
        if len(a) != 1 or not is_num(a[0]):
            raise LangError('squeeze takes one array')
        v = a[0]
        if v.ndim <= 2:
            return v                                    # matrices are left unchanged
        dims = [d for d in v.shape if d != 1]
        dims = dims + [1] * (2 - len(dims))
        return from_column_major(memory_order(v), dims)

    def bi_complex(self, *a):
        if len(a) != 2 or not all(is_num(x) for x in a):
            raise LangError('complex(a, b) takes two real arrays')
        re_, im = a
        if re_.dtype.kind != 'f' or im.dtype.kind != 'f':
            raise LangError('complex: arguments must be real (double) arrays')
        if not (re_.shape == im.shape or re_.size == 1 or im.size == 1):
            raise LangError('complex: arguments must have the same size')
        out = np.empty(np.broadcast(re_, im).shape, dtype='c16')
        out.real, out.imag = re_, im
        return out

    def bi_deff(self, *a):
        if len(a) != 2 or not all(isinstance(x, str) for x in a):
            raise LangError('deff(header, body) takes two strings')
        m = re.fullmatch(r'\s*(?:\[?\s*([A-Za-z_%][A-Za-z0-9_]*)\s*\]?\s*=)?\s*([A-Za-z_%][A-Za-z0-9_]*)\s*\(([^)]*)\)\s*', a[0])
        if not m:
            raise LangError(f'deff: invalid function header {a[0]!r}')
        out, name, params = m.groups()
        params = [p.strip() for p in params.split(',') if p.strip()]
        Parser(a[1]).program()                           # the body must parse
        self.env[name] = DeffFunc(out or 'ans', params, a[1])
        return None


class ScilabAdapter(Adapter):
    name = 'scilab'
    strips_trailing_ones = True
    typed = True

    def run(self, code, cwd):
        it = Interp(cwd)
        it.run(code)
        return it

    def class_ok(self, result, stored):
        # mget delivers doubles, complex() builds double complex: floating types are widened by the language itself
        if stored.dtype.kind in 'fc':
            return result.dtype.kind == stored.dtype.kind
        return result.dtype == stored.dtype.newbyteorder('=')

    def call(self, it, fname, k):
        f = it.env.get(fname)
        if not isinstance(f, DeffFunc):
            raise LangError(f'{fname} is not a function defined by the program')
        return it.call_deff(f, [scalar(float(k))])


ADAPTERS = {'scilab': ScilabAdapter()}

"""Mini-interpreter for the subset of R needed to read binary data (file/readBin/array/close/c/function/if/indexing).
Semantics follow the R documentation of each function (?readBin, ?array, ?Extract, ?Colon)."""
import numpy as np

from .adapters import Adapter
from .core import FileSandbox, Inconclusive, LangError, Stream, tokenize

OPS = ['<<-', '->>', '<-', '->', '<=', '>=', '==', '!=', '&&', '||', '[[', ']]', '(', ')', '[', ']', '{', '}', ',', ';', '=', '+', '-',
       '*', '/', '^', ':', '<', '>', '!', '&', '|', '$', '~', '?']
import re
_RID = re.compile(r'[A-Za-z.][A-Za-z0-9._]*')


class RVec:
    """An R vector: values in column-major order, optional dim attribute. kind: 'integer' 'double' 'complex' 'character' 'logical'"""

    def __init__(self, data, dim=None, kind=None):
        self.data = np.asarray(data).reshape(-1)
        self.dim = tuple(int(d) for d in dim) if dim is not None else None
        self.kind = kind or {'i': 'integer', 'u': 'integer', 'f': 'double', 'c': 'complex', 'b': 'logical', 'U': 'character',
                             'O': 'character'}[self.data.dtype.kind]

    def __len__(self):
        return self.data.size


class Missing:
    pass


class Connection:
    def __init__(self, h, opened):
        self.h, self.opened = h, opened


class Closure:
    def __init__(self, params, body, env):
        self.params, self.body, self.env = params, body, env


class ReturnSignal(Exception):
    def __init__(self, value):
        self.value = value


def dbl(x):
    return RVec(np.array([x], dtype='f8'))


# ---------------------------------------------------------------------------------------------
# parser (precedence as in ?Syntax)
# ---------------------------------------------------------------------------------------------

class Parser:
    def __init__(self, src):
        self.s = Stream(tokenize(src, line_comments=('#',), strings=('"', "'"), ops=OPS, id_re=_RID))
        self.depth = 0            # inside ( or [ newlines are insignificant

    def skip_nl(self):
        self.s.skip_nl()

    def program(self):
        out = []
        s = self.s
        while True:
            while s.cur.kind == 'nl' or s.at_op(';'):
                s.next()
            if s.cur.kind == 'eof':
                return out
            out.append(self.expr())
            if not (s.cur.kind in ('nl', 'eof') or s.at_op(';') or s.at_op('}')):
                raise LangError(f'line {s.cur.line}: unexpected {s.cur.val!r}')

    def expr(self):
        return self.assign_eq()

    def assign_eq(self):              # '=' (right assoc, lowest)
        a = self.assign_arrow()
        if self.s.at_op('='):
            self.s.next()
            self.nl_in()
            return ('assign', a, self.assign_eq())
        return a

    def nl_in(self):
        """after a binary operator a newline does not end the expression"""
        self.s.skip_nl()

    def assign_arrow(self):
        a = self.or_()
        if self.s.at_op('<-', '<<-'):
            self.s.next()
            self.nl_in()
            return ('assign', a, self.assign_arrow())
        while self.s.at_op('->', '->>'):
            self.s.next()
            self.nl_in()
            b = self.or_()
            a = ('assign', b, a)
        return a

    def or_(self):
        a = self.and_()
        while self.s.at_op('|', '||'):
            op = self.s.next().val
            self.nl_in()
            a = ('bin', op, a, self.and_())
        return a

    def and_(self):
        a = self.not_()
        while self.s.at_op('&', '&&'):
            op = self.s.next().val
            self.nl_in()
            a = ('bin', op, a, self.not_())
        return a

    def not_(self):
        if self.s.at_op('!'):
            self.s.next()
            return ('not', self.not_())
        return self.cmp()

    def cmp(self):
        a = self.additive()
        if self.s.at_op('<', '>', '<=', '>=', '==', '!='):
            op = self.s.next().val
            self.nl_in()
            a = ('bin', op, a, self.additive())
        return a

    def additive(self):
        a = self.mult()
        while self.s.at_op('+', '-'):
            op = self.s.next().val
            self.nl_in()
            a = ('bin', op, a, self.mult())
        return a

    def mult(self):
        a = self.colon()
        while self.s.at_op('*', '/'):
            op = self.s.next().val
            self.nl_in()
            a = ('bin', op, a, self.colon())
        return a

    def colon(self):                   # ':' binds tighter than * and + in R
        a = self.unary()
        while self.s.at_op(':'):
            self.s.next()
            self.nl_in()
            a = ('range', a, self.unary())
        return a

    def unary(self):
        if self.s.at_op('-', '+'):
            op = self.s.next().val
            v = self.unary()
            return ('neg', v) if op == '-' else v
        return self.power()

    def power(self):
        a = self.postfix()
        if self.s.at_op('^'):
            self.s.next()
            return ('bin', '^', a, self.unary())
        return a

    def postfix(self):
        s = self.s
        e = self.primary()
        while True:
            if s.at_op('('):
                s.next()
                e = ('call', e, self.args(')'))
            elif s.at_op('[['):
                s.next()
                a = self.args(']]')
                e = ('index2', e, a)
            elif s.at_op('['):
                s.next()
                e = ('index', e, self.args(']'))
            elif s.at_op('$'):
                s.next()
                e = ('dollar', e, s.expect('id').val)
            else:
                return e

    def args(self, closer):
        """list of (name or None, expr or ('missing',))"""
        s = self.s
        out = []
        s.skip_nl()
        if s.at_op(closer):
            s.next()
            return out
        while True:
            s.skip_nl()
            if s.at_op(',') or s.at_op(closer):
                out.append((None, ('missing',)))
            else:
                name = None
                if s.cur.kind in ('id', 'str') and s.peek().kind == 'op' and s.peek().val == '=':
                    name = s.next().val
                    s.next()
                    s.skip_nl()
                    if s.at_op(',') or s.at_op(closer):
                        out.append((name, ('missing',)))
                        name = '__done__'
                if name != '__done__':
                    out.append((name, self.or_arrow_noeq()))
            s.skip_nl()
            if s.accept_op(','):
                continue
            if closer == ']]':
                if s.at_op(']]'):
                    s.next()
                    return out
                raise LangError(f'line {s.cur.line}: expected ]]')
            s.expect_op(closer)
            return out

    def or_arrow_noeq(self):
        return self.assign_arrow()

    def block(self):
        s = self.s
        s.expect_op('{')
        stmts = []
        while True:
            while s.cur.kind == 'nl' or s.at_op(';'):
                s.next()
            if s.at_op('}'):
                s.next()
                return ('block', stmts)
            if s.cur.kind == 'eof':
                raise LangError('unterminated {')
            stmts.append(self.expr())

    def primary(self):
        s = self.s
        t = s.cur
        if t.kind == 'num':
            s.next()
            if s.cur.kind == 'id' and s.cur.val == 'L' and not s.cur.space_before:
                s.next()
                return ('int', int(t.val))
            return ('num', float(t.val))
        if t.kind == 'str':
            s.next()
            return ('str', t.val)
        if t.kind == 'id':
            if t.val == 'function':
                s.next()
                s.expect_op('(')
                params = []
                s.skip_nl()
                if not s.at_op(')'):
                    while True:
                        s.skip_nl()
                        name = s.expect('id').val
                        default = None
                        if s.accept_op('='):
                            default = self.or_arrow_noeq()
                        params.append((name, default))
                        s.skip_nl()
                        if not s.accept_op(','):
                            break
                s.expect_op(')')
                s.skip_nl()
                return ('function', params, self.expr())
            if t.val == 'if':
                s.next()
                s.expect_op('(')
                s.skip_nl()
                cond = self.expr()
                s.skip_nl()
                s.expect_op(')')
                s.skip_nl()
                yes = self.expr()
                # 'else' may follow on the same line, or after newlines when inside braces
                save = s.i
                s.skip_nl()
                if s.cur.kind == 'id' and s.cur.val == 'else':
                    s.next()
                    s.skip_nl()
                    return ('if', cond, yes, self.expr())
                s.i = save
                return ('if', cond, yes, None)
            if t.val in ('for', 'while', 'repeat'):
                raise Inconclusive(f'R statement {t.val} is not modelled')
            s.next()
            if t.val in ('TRUE', 'T'):
                return ('lgl', True)
            if t.val in ('FALSE', 'F'):
                return ('lgl', False)
            if t.val == 'NULL':
                return ('null',)
            if t.val in ('NA', 'NA_integer_'):
                raise Inconclusive('NA is not modelled')
            return ('name', t.val)
        if s.at_op('('):
            s.next()
            s.skip_nl()
            e = self.expr()
            s.skip_nl()
            s.expect_op(')')
            return ('paren', e)
        if s.at_op('{'):
            return self.block()
        raise LangError(f'line {t.line}: unexpected {t.val!r}')


# ---------------------------------------------------------------------------------------------
# evaluator
# ---------------------------------------------------------------------------------------------

UNMODELLED = {'dim', 'length', 'matrix', 'aperm', 'seq', 'seq_len', 'rev', 'print', 'cat', 'as.integer', 'as.numeric', 'is.null',
              'vector', 'list', 'nrow', 'ncol', 't', 'stop', 'paste', 'paste0', 'file.path', 'readRDS', 'seek', 'open', 'drop',
              'bitwAnd', 'Re', 'Im', 'invisible', 'sum', 'rep', 'apply', 'lapply', 'sapply'}


class Interp:
    def __init__(self, cwd):
        self.fs = FileSandbox(cwd)
        self.env = {}

    def run(self, src):
        prog = Parser(src).program()
        for st in prog:
            self.ev(st, self.env)
        return self.env

    def ev(self, e, env):
        k = e[0]
        if k == 'num':
            return dbl(e[1])
        if k == 'int':
            return RVec(np.array([e[1]], dtype='i4'))
        if k == 'str':
            return RVec(np.array([e[1]], dtype=object), kind='character')
        if k == 'lgl':
            return RVec(np.array([e[1]]))
        if k == 'null':
            return None
        if k == 'name':
            scope = env
            while scope is not None:
                if e[1] in scope:
                    return scope[e[1]]
                scope = scope.get('__parent__')
            if e[1] == 'pi':
                return dbl(np.pi)
            raise LangError(f"object '{e[1]}' not found")
        if k == 'paren':
            return self.ev(e[1], env)
        if k == 'block':
            v = None
            for st in e[1]:
                v = self.ev(st, env)
            return v
        if k == 'assign':
            tgt = e[1]
            if tgt[0] == 'str':
                tgt = ('name', tgt[1])
            if tgt[0] != 'name':
                raise Inconclusive('assignment to an indexed target is not modelled')
            v = self.ev(e[2], env)
            env[tgt[1]] = v
            return v
        if k == 'function':
            return Closure(e[1], e[2], env)
        if k == 'if':
            c = self.ev(e[1], env)
            if not isinstance(c, RVec) or len(c) != 1 or c.kind not in ('logical', 'double', 'integer'):
                raise LangError('if: the condition must be a length-one logical')
            if bool(c.data[0]):
                return self.ev(e[2], env)
            return self.ev(e[3], env) if e[3] is not None else None
        if k == 'neg':
            v = self.num(self.ev(e[1], env), 'unary minus')
            return RVec(-v.data, v.dim, v.kind)
        if k == 'not':
            v = self.ev(e[1], env)
            return RVec(~v.data.astype(bool), v.dim)
        if k == 'bin':
            return self.binop(e[1], self.ev(e[2], env), self.ev(e[3], env))
        if k == 'range':
            a, b = self.num(self.ev(e[1], env), ':'), self.num(self.ev(e[2], env), ':')
            if len(a) == 0 or len(b) == 0:
                raise LangError('argument of length 0 in a:b')
            lo, hi = a.data[0].item(), b.data[0].item()
            n = int(np.floor(abs(hi - lo) + 1e-10)) + 1
            vals = [lo + i if hi >= lo else lo - i for i in range(n)]
            isint = a.kind == 'integer' or float(lo) == int(lo)
            return RVec(np.array(vals, dtype='i4' if isint and all(abs(v) < 2 ** 31 for v in vals) else 'f8'))
        if k == 'call':
            return self.call(e, env)
        if k == 'index':
            return self.index(self.ev(e[1], env), [(n, self.ev(a, env) if a[0] != 'missing' else Missing()) for n, a in e[2]])
        if k == 'index2':
            raise Inconclusive('[[ ]] is not modelled')
        if k == 'dollar':
            raise Inconclusive('$ is not modelled')
        if k == 'missing':
            return Missing()
        raise LangError(f'cannot evaluate {k}')

    def num(self, v, what):
        if not isinstance(v, RVec) or v.kind not in ('integer', 'double', 'complex', 'logical'):
            raise LangError(f'non-numeric argument to {what}')
        return v

    def binop(self, op, a, b):
        a, b = self.num(a, op), self.num(b, op)
        if len(a) == 0 or len(b) == 0:
            return RVec(np.array([], dtype='f8'))
        if len(a) != len(b) and len(a) != 1 and len(b) != 1:
            raise Inconclusive('recycling of unequal lengths is not modelled')
        x, y = a.data, b.data
        dim = a.dim if len(a) >= len(b) else b.dim
        if op in ('+', '-', '*'):
            if a.kind == 'integer' and b.kind == 'integer':
                r = {'+': np.add, '-': np.subtract, '*': np.multiply}[op](x.astype('i8'), y.astype('i8'))
                if np.any(np.abs(r) >= 2 ** 31):
                    raise Inconclusive('integer overflow gives NA')
                return RVec(r.astype('i4'), dim)
            r = {'+': np.add, '-': np.subtract, '*': np.multiply}[op](x.astype('c16' if 'complex' in (a.kind, b.kind) else 'f8'),
                                                                      y.astype('c16' if 'complex' in (a.kind, b.kind) else 'f8'))
            return RVec(r, dim)
        if op == '/':
            return RVec(x.astype('f8') / y.astype('f8'), dim)
        if op in ('<', '>', '<=', '>=', '==', '!='):
            f = {'<': np.less, '>': np.greater, '<=': np.less_equal, '>=': np.greater_equal, '==': np.equal, '!=': np.not_equal}[op]
            return RVec(f(x, y), dim)
        if op in ('&&', '||', '&', '|'):
            f = np.logical_and if '&' in op else np.logical_or
            return RVec(f(x.astype(bool), y.astype(bool)), dim)
        raise Inconclusive(f'operator {op} is not modelled')

    # -- calls ---------------------------------------------------------------------
    def call(self, e, env):
        target = e[1]
        args = [(n, self.ev(a, env) if a[0] != 'missing' else Missing()) for n, a in e[2]]
        if target[0] == 'name':
            name = target[1]
            scope, found = env, None
            while scope is not None:
                if name in scope and isinstance(scope[name], Closure):
                    found = scope[name]
                    break
                scope = scope.get('__parent__')
            if found is not None:
                return self.apply(found, args)
            f = getattr(self, 'bi_' + name.replace('.', '_'), None)
            if f is None:
                if name in UNMODELLED:
                    raise Inconclusive(f'R function {name} is not modelled')
                raise LangError(f'could not find function "{name}"')
            return f(args)
        fv = self.ev(target, env)
        if isinstance(fv, Closure):
            return self.apply(fv, args)
        raise LangError('attempt to apply non-function')

    def apply(self, f, args):
        local = {'__parent__': f.env}
        names = [p for p, _ in f.params]
        pos = [a for n, a in args if n is None]
        for n, a in args:
            if n is not None:
                if n not in names:
                    raise LangError(f'unused argument ({n})')
                local[n] = a
        free = [p for p in names if p not in local]
        if len(pos) > len(free):
            raise LangError('unused argument')
        for p, a in zip(free, pos):
            local[p] = a
        for p, d in f.params:
            if p not in local:
                if d is None:
                    continue          # missing: error only when used ("object not found" here)
                local[p] = self.ev(d, local)
        try:
            return self.ev(f.body, local)
        except ReturnSignal as r:
            return r.value

    def bind(self, fname, formals, args, required=()):
        """R argument matching: exact names first, then positions. formals: list of names."""
        out = {}
        pos = []
        for n, a in args:
            if n is None:
                pos.append(a)
            else:
                hits = [f for f in formals if f == n] or [f for f in formals if f.startswith(n)]
                if len(hits) != 1:
                    raise LangError(f'{fname}: unused or ambiguous argument ({n})')
                if hits[0] in out:
                    raise LangError(f'{fname}: formal argument "{hits[0]}" matched by multiple actual arguments')
                out[hits[0]] = a
        free = [f for f in formals if f not in out]
        if len(pos) > len(free):
            raise LangError(f'{fname}: unused argument')
        for f, a in zip(free, pos):
            out[f] = a
        for r in required:
            if r not in out or isinstance(out[r], Missing):
                raise LangError(f'{fname}: argument "{r}" is missing, with no default')
        return out

    def str1(self, v, what):
        if not isinstance(v, RVec) or v.kind != 'character' or len(v) != 1:
            raise LangError(f'{what} must be a character string')
        return str(v.data[0])

    def bi_return(self, args):
        if len(args) > 1:
            raise LangError('multi-argument returns are not permitted')
        raise ReturnSignal(args[0][1] if args else None)

    def bi_c(self, args):
        vals = [a for _, a in args if a is not None]
        if not vals:
            return None
        if any(not isinstance(v, RVec) for v in vals):
            raise Inconclusive('c() of non-vectors is not modelled')
        kinds = {v.kind for v in vals}
        if 'character' in kinds:
            return RVec(np.concatenate([v.data.astype(object) for v in vals]), kind='character')
        dt = 'c16' if 'complex' in kinds else ('f8' if 'double' in kinds else ('i4' if 'integer' in kinds else bool))
        return RVec(np.concatenate([v.data.astype(dt) for v in vals]))

    def bi_integer(self, args):
        return self._zero(args, 'i4', 'integer')

    def bi_numeric(self, args):
        return self._zero(args, 'f8', 'numeric')

    def bi_double(self, args):
        return self._zero(args, 'f8', 'double')

    def bi_complex(self, args):
        if args:
            raise Inconclusive('complex() with arguments is not modelled')
        return RVec(np.zeros(0, dtype='c16'))

    def bi_character(self, args):
        return RVec(np.zeros(0, dtype=object), kind='character')

    def _zero(self, args, dt, name):
        b = self.bind(name, ['length'], args)
        n = 0
        if 'length' in b:
            n = int(self.num(b['length'], name).data[0])
        return RVec(np.zeros(n, dtype=dt))

    def bi_file(self, args):
        b = self.bind('file', ['description', 'open', 'blocking', 'encoding', 'raw', 'method'], args)
        desc = self.str1(b.get('description', RVec(np.array([''], dtype=object), kind='character')), 'file: description')
        mode = self.str1(b['open'], 'file: open') if 'open' in b else ''
        if mode not in ('', 'r', 'rt', 'rb', 'w', 'wt', 'wb', 'a', 'at', 'ab', 'r+', 'r+b', 'w+', 'w+b', 'a+', 'a+b'):
            raise LangError(f'file: invalid open mode {mode!r}')
        if mode not in ('', 'r', 'rt', 'rb'):
            raise LangError(f'file: open mode {mode!r} is not read-only')
        return Connection(self.fs.open(desc, 'r'), mode)

    def bi_close(self, args):
        b = self.bind('close', ['con', 'type'], args, required=['con'])
        if not isinstance(b['con'], Connection):
            raise LangError('close: argument is not a connection')
        b['con'].h.closed = True
        return None

    def bi_readBin(self, args):
        b = self.bind('readBin', ['con', 'what', 'n', 'size', 'signed', 'endian'], args, required=['con', 'what'])
        con = b['con']
        if isinstance(con, RVec) and con.kind == 'character':
            con = Connection(self.fs.open(self.str1(con, 'readBin: con'), 'r'), 'rb')
        if not isinstance(con, Connection):
            raise LangError('readBin: con must be a connection, a file name or a raw vector')
        if con.opened in ('r', 'rt'):
            raise LangError('readBin can only read from a binary connection')
        what = b['what']
        if isinstance(what, RVec) and what.kind == 'character':
            w = self.str1(what, 'what')
            alias = {'numeric': 'double', 'double': 'double', 'integer': 'integer', 'int': 'integer', 'complex': 'complex',
                     'logical': 'logical', 'character': 'character', 'raw': 'raw'}
            if w not in alias:
                raise LangError(f"readBin: invalid 'what' argument {w!r}")
            kind = alias[w]
        elif isinstance(what, RVec):
            kind = what.kind
        else:
            raise LangError("readBin: invalid 'what' argument")
        if kind in ('logical', 'character', 'raw'):
            raise Inconclusive(f'readBin of {kind} is not modelled')
        n = 1
        if 'n' in b:
            nv = self.num(b['n'], 'readBin: n')
            n = nv.data[0].item()
            if n != int(n) or n < 0:
                raise LangError("readBin: invalid 'n' argument")
            n = int(n)
        size = None
        if 'size' in b and b['size'] is not None:
            sv = self.num(b['size'], 'readBin: size').data[0].item()
            if sv != int(sv):
                raise LangError("readBin: invalid 'size'")
            size = int(sv)
        signed = True
        if 'signed' in b:
            sg = b['signed']
            if not isinstance(sg, RVec) or sg.kind != 'logical' or len(sg) != 1:
                raise LangError("readBin: 'signed' must be TRUE or FALSE")
            signed = bool(sg.data[0])
        endian = 'little'
        if 'endian' in b:
            endian = self.str1(b['endian'], 'readBin: endian')
            if endian not in ('big', 'little', 'swap'):
                raise LangError(f"readBin: invalid 'endian' argument {endian!r}")
        order = {'big': '>', 'little': '<', 'swap': '>'}[endian]
        if kind == 'integer':
            size = 4 if size is None else size
            if size not in (1, 2, 4, 8):
                raise LangError(f'readBin: size {size} is unknown on this machine for integer')
            if not signed and size not in (1, 2):
                raise LangError("readBin: 'signed = FALSE' is only valid for integers of sizes 1 and 2")
            dt = np.dtype(f'{"i" if signed else "u"}{size}')
        elif kind == 'double':
            size = 8 if size is None else size
            if size not in (4, 8):
                raise LangError(f'readBin: size {size} is unknown on this machine for numeric')
            dt = np.dtype(f'f{size}')
        else:
            if size not in (None, 16):
                raise LangError('readBin: size changing is not supported for complex vectors')
            dt = np.dtype('c16')
        if dt.itemsize > 1:
            dt = dt.newbyteorder(order)
        avail = con.h.remaining() // dt.itemsize
        cnt = min(n, avail)
        vals = np.frombuffer(con.h.take(cnt * dt.itemsize), dtype=dt)
        if kind == 'integer':
            wide = vals.astype('i8')
            if np.any((wide > 2 ** 31 - 1) | (wide <= -2 ** 31)):
                raise Inconclusive('values outside the R integer range become NA')
            return RVec(wide.astype('i4'))
        return RVec(vals.astype('f8' if kind == 'double' else 'c16'))

    def bi_array(self, args):
        b = self.bind('array', ['data', 'dim', 'dimnames'], args)
        data = b.get('data')
        if data is None or isinstance(data, Missing):
            raise Inconclusive('array() without data is not modelled')
        if not isinstance(data, RVec):
            raise LangError("array: 'data' must be of a vector type")
        dim = b.get('dim')
        if dim is None or isinstance(dim, Missing):
            dim = RVec(np.array([len(data)], dtype='i4'))
        dv = self.num(dim, 'array: dim').data.tolist()
        if not dv:
            raise LangError("array: 'dim' cannot be of length 0")
        for d in dv:
            if d != int(d) or d < 0:
                raise LangError('array: negative or fractional extents are not allowed')
        dv = [int(d) for d in dv]
        if b.get('dimnames') is not None and not isinstance(b.get('dimnames'), Missing):
            raise Inconclusive('dimnames are not modelled')
        total = int(np.prod(dv))
        if len(data) == 0:
            if total:
                raise Inconclusive('array() filling with NA is not modelled')
            out = data.data
        else:
            out = np.resize(data.data, total) if total else data.data[:0]     # R recycles / truncates silently
        return RVec(out, dv, data.kind)

    # -- indexing --------------------------------------------------------------------
    def index(self, x, subs):
        if any(n is not None for n, _ in subs):
            raise Inconclusive('named index arguments (drop=) are not modelled')
        subs = [a for _, a in subs]
        if x is None:
            return None
        if not isinstance(x, RVec):
            raise LangError('object of this type is not subsettable')
        if len(subs) == 1:
            s = subs[0]
            if isinstance(s, Missing):
                return x
            idx = self.positions(s, len(x), strict=False)
            return RVec(x.data[idx], None, x.kind)
        dim = x.dim
        if dim is None or len(subs) != len(dim):
            raise LangError('incorrect number of dimensions')
        idxs = []
        for d, s in zip(dim, subs):
            idxs.append(list(range(d)) if isinstance(s, Missing) else self.positions(s, d, strict=True))
        arr = x.data.reshape(dim, order='F')
        if all(len(i) for i in idxs):
            out = arr[np.ix_(*idxs)]
        else:
            out = np.zeros([len(i) for i in idxs], dtype=x.data.dtype)
        shape = [len(i) for i in idxs]
        kept = [n for n in shape if n != 1]             # drop = TRUE
        flat = out.flatten(order='F')
        if len(kept) <= 1:
            return RVec(flat, None, x.kind)
        return RVec(flat, kept, x.kind)

    def positions(self, s, n, strict):
        if not isinstance(s, RVec) or s.kind not in ('integer', 'double', 'logical'):
            raise LangError('invalid subscript type')
        if s.kind == 'logical':
            raise Inconclusive('logical subscripts are not modelled')
        vals = s.data.tolist()
        if any(v < 0 for v in vals):
            raise Inconclusive('negative subscripts are not modelled')
        out = []
        for v in vals:
            v = int(v)                                   # R truncates towards zero
            if v == 0:
                continue
            if v > n:
                if strict:
                    raise LangError('subscript out of bounds')
                raise Inconclusive('out-of-range vector subscripts give NA')
            out.append(v - 1)
        return out


class RAdapter(Adapter):
    name = 'R'
    typed = False            # R has one integer and one floating type: values are what can be compared

    def run(self, code, cwd):
        it = Interp(cwd)
        it.run(code)
        return it

    def to_numpy(self, v, var='value'):
        if v is None:
            return np.zeros((0,), dtype='f8')
        if not isinstance(v, RVec):
            raise LangError(f'{var} is not a vector or array')
        return v.data.reshape(v.dim, order='F') if v.dim is not None else v.data

    def call(self, it, fname, k):
        f = it.env.get(fname)
        if not isinstance(f, Closure):
            raise LangError(f'{fname} is not a function')
        return it.apply(f, [(None, dbl(float(k)))])


ADAPTERS = {'R': RAdapter()}

"""Shared parts of the mini-interpreters for the non-Python read-code languages (C06, C07).

No interpreter for R, Matlab/Octave, Scilab, Julia, IDL, Mathematica or Maple exists in this image, so each
language gets a small tokenizer + recursive-descent parser for its *own* statement and expression syntax
(not for Darr's templates) and an evaluator for the documented semantics of the handful of builtins Darr
emits, operating on the real bytes of the array's files.

A program is *ill-formed* (LangError) when it does not parse, calls something that is not a builtin of the
language, or passes arguments the documentation does not allow.  A builtin / construct that exists in the
language but is not modelled here raises Inconclusive, which is counted, never reported as a violation.
"""
import os
import re

import numpy as np


class LangError(Exception):
    """The program is not a well-formed program of the language (as documented)."""


class Inconclusive(Exception):
    """A real feature of the language that this interpreter does not model."""


class Tok:
    __slots__ = ('kind', 'val', 'pos', 'line', 'space_before')

    def __init__(self, kind, val, pos, line, space_before=False):
        self.kind, self.val, self.pos, self.line, self.space_before = kind, val, pos, line, space_before

    def __repr__(self):
        return f'{self.kind}:{self.val!r}'


_NUM = re.compile(r'(\d+\.\d*([eE][+-]?\d+)?|\.\d+([eE][+-]?\d+)?|\d+[eE][+-]?\d+|\d+)')
_ID = re.compile(r'[A-Za-z_][A-Za-z0-9_]*')


def tokenize(src, *, line_comments=(), block_comments=(), strings=('"',), ops=(), newline_tokens=True,
             id_re=_ID, transpose_quote=False, nested_block_comments=False):
    """-> list of Tok; kinds: num, str, id, op, nl, eof.  `ops` longest first is arranged here."""
    ops = sorted(ops, key=len, reverse=True)
    toks = []
    i, n, line = 0, len(src), 1
    space = False
    while i < n:
        c = src[i]
        if c == '\n':
            if newline_tokens:
                toks.append(Tok('nl', '\n', i, line))
            i += 1
            line += 1
            space = True
            continue
        if c in ' \t\r':
            i += 1
            space = True
            continue
        hit = False
        for (o, cl) in block_comments:
            if src.startswith(o, i):
                depth, j = 1, i + len(o)
                while j < n and depth:
                    if nested_block_comments and src.startswith(o, j):
                        depth += 1
                        j += len(o)
                    elif src.startswith(cl, j):
                        depth -= 1
                        j += len(cl)
                    else:
                        j += 1
                if depth:
                    raise LangError(f'line {line}: unterminated comment')
                line += src.count('\n', i, j)
                i = j
                hit = True
                space = True
                break
        if hit:
            continue
        for lc in line_comments:
            if src.startswith(lc, i):
                j = src.find('\n', i)
                i = n if j < 0 else j
                hit = True
                break
        if hit:
            continue
        if c in strings:
            # Matlab: a quote directly after an identifier / closing bracket is the transpose operator
            if transpose_quote and c == "'" and toks and not space and \
                    (toks[-1].kind in ('id', 'num') or toks[-1].val in (')', ']', '}', "'")):
                toks.append(Tok('op', "'", i, line, space))
                i += 1
                space = False
                continue
            j = i + 1
            buf = []
            while True:
                if j >= n or src[j] == '\n':
                    raise LangError(f'line {line}: unterminated string')
                if src[j] == c:
                    if j + 1 < n and src[j + 1] == c and c == "'" and transpose_quote:   # '' inside a Matlab string
                        buf.append(c)
                        j += 2
                        continue
                    break
                if src[j] == '\\' and c == '"' and j + 1 < n and not transpose_quote:
                    buf.append(src[j + 1])
                    j += 2
                    continue
                buf.append(src[j])
                j += 1
            toks.append(Tok('str', ''.join(buf), i, line, space))
            i = j + 1
            space = False
            continue
        m = _NUM.match(src, i)
        if m and (c.isdigit() or (c == '.' and i + 1 < n and src[i + 1].isdigit())):
            txt = m.group(0)
            # "1..2" (Maple range) must not eat the dot
            if '.' in txt and src.startswith('..', i + txt.index('.')):
                txt = txt[:txt.index('.')]
            val = float(txt) if any(ch in txt for ch in '.eE') else int(txt)
            toks.append(Tok('num', val, i, line, space))
            i += len(txt)
            space = False
            continue
        m = id_re.match(src, i)
        if m:
            toks.append(Tok('id', m.group(0), i, line, space))
            i = m.end()
            space = False
            continue
        for o in ops:
            if src.startswith(o, i):
                toks.append(Tok('op', o, i, line, space))
                i += len(o)
                hit = True
                space = False
                break
        if hit:
            continue
        raise LangError(f'line {line}: unexpected character {c!r}')
    toks.append(Tok('eof', None, n, line))
    return toks


class Stream:
    def __init__(self, toks):
        self.toks = toks
        self.i = 0

    @property
    def cur(self):
        return self.toks[self.i]

    def peek(self, k=1):
        return self.toks[min(self.i + k, len(self.toks) - 1)]

    def next(self):
        t = self.toks[self.i]
        if t.kind != 'eof':
            self.i += 1
        return t

    def at(self, kind, val=None):
        t = self.cur
        return t.kind == kind and (val is None or t.val == val)

    def at_op(self, *vals):
        t = self.cur
        return t.kind == 'op' and t.val in vals

    def accept_op(self, *vals):
        if self.at_op(*vals):
            return self.next()
        return None

    def expect_op(self, val):
        if not self.at_op(val):
            raise LangError(f'line {self.cur.line}: expected {val!r}, found {self.cur.val!r}')
        return self.next()

    def expect(self, kind):
        if self.cur.kind != kind:
            raise LangError(f'line {self.cur.line}: expected {kind}, found {self.cur.val!r}')
        return self.next()

    def skip_nl(self):
        while self.cur.kind == 'nl':
            self.next()


# ---------------------------------------------------------------------------------------------
# sandboxed, read-only file access for the interpreted programs
# ---------------------------------------------------------------------------------------------

class FileSandbox:
    """Resolves the file names a program uses relative to a working directory and hands out the real bytes.
    Records every name opened and refuses anything but reading."""

    def __init__(self, cwd):
        self.cwd = cwd
        self.opened = []         # literal names as written in the program
        self.handles = {}
        self._n = 2

    def resolve(self, name):
        return os.path.normpath(name if os.path.isabs(name) else os.path.join(self.cwd, name))

    def read_bytes(self, name):
        self.opened.append(name)
        p = self.resolve(name)
        try:
            with open(p, 'rb') as f:
                return f.read()
        except OSError as e:
            raise LangError(f'the program reads {name!r}, which cannot be opened from {self.cwd}: {e}')

    def open(self, name, mode='r'):
        if any(ch in mode for ch in 'wa+x'):
            raise LangError(f'the program opens {name!r} in mode {mode!r}: not a read-only mode')
        data = self.read_bytes(name)
        self._n += 1
        h = FileHandle(self._n, name, data)
        self.handles[h.fid] = h
        return h


class FileHandle:
    def __init__(self, fid, name, data):
        self.fid, self.name, self.data, self.pos, self.closed = fid, name, data, 0, False

    def take(self, nbytes):
        if self.closed:
            raise LangError(f'read from closed file {self.name!r}')
        b = self.data[self.pos:self.pos + nbytes]
        self.pos += len(b)
        return b

    def remaining(self):
        return len(self.data) - self.pos


# ---------------------------------------------------------------------------------------------
# column-major helpers (values are NumPy arrays whose .shape is the language's dims)
# ---------------------------------------------------------------------------------------------

def from_column_major(flat, dims):
    """The array a column-major language builds when it fills `dims` with the elements of `flat` in memory order."""
    flat = np.asarray(flat)
    dims = tuple(int(d) for d in dims)
    if int(np.prod(dims)) != flat.size:
        raise LangError(f'cannot arrange {flat.size} elements into dimensions {list(dims)}')
    return flat.reshape(dims, order='F')


def memory_order(arr, column_major=True):
    return np.asarray(arr).flatten(order='F' if column_major else 'C')


def strip_trailing_ones(shape, minimum=1):
    s = list(shape)
    while len(s) > minimum and s[-1] == 1:
        s.pop()
    return tuple(s)


def as_index_list(x):
    """ints from a scalar / list / 1-D array"""
    a = np.asarray(x)
    if a.ndim == 0:
        return [int(a)]
    return [int(v) for v in a.flatten(order='F')]

"""Uniform access to the mini-interpreters: run a generated program, fetch a variable as an ndarray whose shape is
the language's dimensions, and compare it with the stored (row-major) array under the language's conventions."""
import numpy as np

from .core import Inconclusive, LangError, strip_trailing_ones


def values_equal(got, want):
    """exact value equality, element by element (Python numbers; no NaNs are in the payloads)"""
    g, w = np.asarray(got), np.asarray(want)
    if g.shape != w.shape:
        return False
    return g.tolist() == w.astype(w.dtype.newbyteorder('=')).tolist()


class Adapter:
    column_major = True
    strips_trailing_ones = False     # the language cannot represent trailing singleton dimensions
    typed = True                     # results carry the exact numeric class
    name = '?'
    index_origin = 1

    def run(self, code, cwd):
        raise NotImplementedError

    def run_array(self, code, cwd, var):
        it = self.run(code, cwd)
        v = self.get_var(it, var)
        return self.to_numpy(v, var), it.fs

    def subarray(self, it, code, cwd, k):
        """value of the program's subarray accessor for language index k"""
        return self.call(it, 'getsubarray', k)

    def call(self, it, fname, k):
        raise LangError('the program defines no accessor function')

    def get_var(self, it, var):
        if var not in it.env:
            raise LangError(f'the program does not define the variable {var}')
        return it.env[var]

    def to_numpy(self, v, var='value'):
        if not isinstance(v, np.ndarray):
            raise LangError(f'{var} is not an array ({type(v).__name__})')
        return v

    def expected(self, stored):
        return stored.T if self.column_major else stored

    def class_ok(self, result, stored):
        return result.dtype == stored.dtype.newbyteorder('=')

    def compare(self, result, stored):
        """None if result denotes the stored array, else a description of the difference."""
        exp = self.expected(stored)
        rs, es = tuple(result.shape), tuple(exp.shape)
        if self.strips_trailing_ones:
            rs, es = strip_trailing_ones(rs), strip_trailing_ones(es)
            if stored.ndim == 1 and sum(1 for d in rs if d != 1) <= 1 and int(np.prod(rs)) == stored.size:
                rs = es          # the language has no 1-D arrays: a row or a column vector both denote one
        if rs != es:
            return f'dimensions {list(result.shape)}, expected {list(exp.shape)} ' \
                   f'({"reversed" if self.column_major else "as stored"})'
        order = 'F' if self.column_major else 'C'
        g = np.asarray(result).flatten(order=order)
        w = np.asarray(exp).flatten(order=order)
        if not values_equal(g, w):
            bad = [i for i, (x, y) in enumerate(zip(g.tolist(), w.astype(w.dtype.newbyteorder('=')).tolist())) if x != y]
            return f'{len(bad)} of {g.size} values differ (first at memory position {bad[0]}: got {g[bad[0]]!r}, stored {w[bad[0]]!r})'
        if self.typed and not self.class_ok(result, stored):
            return f'numeric class {result.dtype.name}, stored type is {stored.dtype.name}'
        return None


class MatlabAdapter(Adapter):
    name = 'matlab'
    strips_trailing_ones = True

    def run(self, code, cwd):
        from . import matlab
        it = matlab.Interp(cwd)
        it.run(code)
        return it

    def call(self, it, fname, k):
        from . import matlab
        return matlab.call_function(it, fname, k)


_REG = {}


def register(lang, adapter):
    _REG[lang] = adapter


register('matlab', MatlabAdapter())


class _Missing(Adapter):
    def __init__(self, lang):
        self.lang = lang

    def run(self, code, cwd):
        raise Inconclusive(f'no interpreter for {self.lang} yet')


def get(lang):
    _load()
    return _REG.get(lang) or _Missing(lang)


_loaded = [False]


def _load():
    if _loaded[0]:
        return
    _loaded[0] = True
    for mod in ('scilab', 'rlang', 'julia', 'idl', 'mathematica', 'maple'):
        try:
            m = __import__(f'dv.langs.{mod}', fromlist=['ADAPTERS'])
        except ImportError:
            continue
        for lang, ad in m.ADAPTERS.items():
            register(lang, ad)

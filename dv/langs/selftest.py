"""Fixtures that validate the mini-interpreters themselves: programs whose result is known from the documentation
of the language (not from Darr), written in a style different from Darr's templates, and negative fixtures that every
interpreter must reject as ill-formed."""
import os

import numpy as np

from ..common import fresh_dir, rmtree
from . import adapters
from .core import Inconclusive, LangError


def _data_dir():
    d = fresh_dir('langfix')
    np.arange(1, 9, dtype='<i8').tofile(os.path.join(d, 'i8le.bin'))          # 1..8
    np.arange(1, 9, dtype='>i2').tofile(os.path.join(d, 'i2be.bin'))
    np.arange(1, 7, dtype='<f4').tofile(os.path.join(d, 'f4le.bin'))          # 1..6
    (np.arange(1, 5) + 1j * np.arange(5, 9)).astype('<c16').tofile(os.path.join(d, 'c16le.bin'))
    np.array([250, 251, 252], dtype='u1').tofile(os.path.join(d, 'u1.bin'))
    return d


def _run(lang, src, d, var='a'):
    ad = adapters.get(lang)
    it = ad.run(src, d)
    return ad.to_numpy(ad.get_var(it, var), var), it, ad


def _rejects(lang, src, d, what):
    try:
        _run(lang, src, d)
    except LangError:
        return
    except Inconclusive as e:
        raise AssertionError(f'{lang}: {what}: expected ill-formed, got inconclusive ({e})')
    raise AssertionError(f'{lang}: {what}: an ill-formed program was accepted')


def t_matlab():
    d = _data_dir()
    try:
        # the session printed in docs/readcode.rst: 4x2, columns 1..4 and 5..8
        a, it, ad = _run('matlab', "fid = fopen('i8le.bin');\na = fread(fid, [4, 2], '*int64');\nfclose(fid);\nb = a(:,1);\n", d)
        assert a.dtype == np.int64 and a.shape == (4, 2) and a[:, 0].tolist() == [1, 2, 3, 4] and a[:, 1].tolist() == [5, 6, 7, 8]
        assert it.env['b'].shape == (4, 1) and it.env['b'].ravel().tolist() == [1, 2, 3, 4]
        # precision without * gives double; big-endian by machine format; skip
        a, _, _ = _run('matlab', "f=fopen('i2be.bin','r');\na = fread(f, 4, 'int16', 2, 'ieee-be'); % every other value\n", d)
        assert a.dtype == np.float64 and a.ravel().tolist() == [1, 3, 5, 7]
        a, _, _ = _run('matlab', "f=fopen('f4le.bin');\na = reshape(fread(f, 6, '*single'), [3 2]);", d)
        assert a.dtype == np.float32 and a.shape == (3, 2) and a[:, 1].tolist() == [4, 5, 6]
        # integer classes saturate; a:b with a>b is empty
        a, _, _ = _run('matlab', "f=fopen('u1.bin'); v=fread(f,3,'*uint8'); a = v(3)+10; e = v(3:2);", d)
        assert a.dtype == np.uint8 and int(a.ravel()[0]) == 255
        _, it, _ = _run('matlab', "f=fopen('u1.bin'); v=fread(f,3,'*uint8'); a=v; g=@(k) v(k:k+1); s=g(2);", d)
        assert it.env['s'].ravel().tolist() == [251, 252]
        _rejects('matlab', "f=fopen('i8le.bin'); a=fread(f, 8, '*int64', '4, ieee-le');", d, 'string where the skip must be numeric')
        _rejects('matlab', "f=fopen('i8le.bin'); a=fraed(f, 8);", d, 'unknown function')
        _rejects('matlab', "f=fopen('i8le.bin'); a=fread(f, [4, 2], '*int64';", d, 'unbalanced parenthesis')
        _rejects('matlab', "f=fopen('i8le.bin','w'); a=1;", d, 'file opened for writing')
        _rejects('matlab', "f=fopen('i8le.bin'); a=fread(f, 8, '*int64'); a=reshape(a,[3,3]);", d, 'reshape changing the element count')
        _rejects('matlab', "f=fopen('i8le.bin'); a=fread(f, 8, '*int64'); a=a(0);", d, 'index 0')
    finally:
        rmtree(d)


def t_scilab():
    d = _data_dir()
    try:
        a, _, _ = _run('scilab', 'fd = mopen("i2be.bin", "rb"); // open\na = mgeti(8, "sb", fd);\na = matrix(a, 2, 4);\nmclose(fd);', d)
        assert a.dtype == np.int16 and a.shape == (2, 4) and a[:, 0].tolist() == [1, 2]
        a, _, _ = _run('scilab', 'fd = mopen("f4le.bin"); a = mget(6, "fl", fd); /* doubles */', d)
        assert a.dtype == np.float64 and a.shape == (1, 6)
        a, _, _ = _run('scilab', 'fd = mopen("i8le.bin"); a = mgeti(8, "ll", fd); a = matrix(a, [2,1,4]); a = squeeze(a);', d)
        assert a.shape == (2, 4)
        _, it, _ = _run('scilab', 'fd = mopen("u1.bin"); v = mgeti(3, "uc", fd); a=v;\ndeff("y = f(k)", "y = v(k)")\ns = f(2);', d)
        assert int(it.env['s'].ravel()[0]) == 251
        _rejects('scilab', 'fd = mopen("i8le.bin"); a = mgeti(8, "q", fd);', d, 'invalid format letter')
        _rejects('scilab', 'fd = mopen("i8le.bin"); a = fread(fd, 8);', d, 'a Matlab function in Scilab')
        _rejects('scilab', 'fd = mopen("i8le.bin", "wb"); a = 1;', d, 'write mode')
        _rejects('scilab', 'fd = mopen("f4le.bin"); a = mgeti(6, "fl", fd);', d, 'mgeti with a float format')
    finally:
        rmtree(d)


def t_r():
    d = _data_dir()
    try:
        src = ('con <- file("i2be.bin", open = "rb")\n'
               'a <- readBin(con, integer(), size = 2, n = 8, endian = "big")   # arguments by name, any order\n'
               'a <- array(a, dim = c(2, 4))\nclose(con)\n')
        a, _, _ = _run('R', src, d)
        assert a.shape == (2, 4) and a[:, 0].tolist() == [1, 2] and a[:, 3].tolist() == [7, 8]
        a, it, _ = _run('R', 'f = file("f4le.bin","rb"); a = readBin(f, "numeric", 6, 4); b = 3:1; e = a[2:3]', d)
        assert a.tolist() == [1, 2, 3, 4, 5, 6] and it.env['b'].data.tolist() == [3, 2, 1] and it.env['e'].data.tolist() == [2, 3]
        src = ('f <- file("c16le.bin", "rb")\nz <- readBin(f, complex(), n=4)\n'
               'g <- function(k) {\n  if (k > 2) {\n    return (z[k])\n  } else {\n    return (c())\n  }\n}\na <- g(3)\nb <- g(1)\n')
        a, it, _ = _run('R', src, d)
        assert a.tolist() == [3 + 7j] and it.env['b'] is None
        a, _, _ = _run('R', 'f <- file("i8le.bin","rb"); m <- array(readBin(f, integer(), 8, 8), c(2,2,2)); a <- m[,2,]', d)
        assert a.shape == (2, 2) and a[:, 0].tolist() == [3, 4]
        _rejects('R', 'f <- file("u1.bin","rb"); a <- readBin(f, integer(), 3, 4, signed=FALSE)', d, 'unsigned 4-byte integers')
        _rejects('R', 'f <- file("u1.bin","rb"); a <- readBin(f, integer(), n=3, size=3)', d, 'size 3')
        _rejects('R', 'f <- file("u1.bin","rb"); a <- readbin(f, integer(), 3, 1)', d, 'unknown function (case)')
        _rejects('R', 'f <- file("u1.bin","rb"); a <- readBin(f, integer(), 3, 1, endian="middle")', d, 'invalid endian')
        _rejects('R', 'f <- file("u1.bin","rb"); a <- readBin(f, integer(), 3, 1))', d, 'unbalanced parenthesis')
        _rejects('R', 'f <- file("u1.bin","wb"); a <- 1', d, 'write mode')
    finally:
        rmtree(d)


def t_julia():
    d = _data_dir()
    try:
        a, _, _ = _run('julia_ver1', 'io = open("i2be.bin")\na = map(ntoh, read!(io, Array{Int16}(undef, (2, 4))))\nclose(io)\n', d)
        assert a.dtype == np.int16 and a.shape == (2, 4) and a[:, 1].tolist() == [3, 4]
        a, it, _ = _run('julia_ver1', 'io = open("f4le.bin", "r"); v = read!(io, Array{Float32,2}(undef, 3, 2));\n'
                        'f(k) = v[:, k:k]\nfunction g(k)\n  return v[2, k]\nend\na = f(2); s = g(1)', d)
        assert a.shape == (3, 1) and a.ravel().tolist() == [4, 5, 6] and float(it.env['s']) == 2.0
        a, _, _ = _run('julia_ver0', 'io = open("i8le.bin","r"); a = map(ltoh, read(io, Int64, (4, 2)));', d)
        assert a.shape == (4, 2) and a[:, 1].tolist() == [5, 6, 7, 8]
        a, _, _ = _run('julia_ver1', 'io = open("c16le.bin"); a = read!(io, Array{Complex{Float64}}(undef, 4)); e = a[3:2]', d)
        assert a.shape == (4,) and a[0] == 1 + 5j
        _rejects('julia_ver1', 'io = open("i8le.bin"); a = read(io, Int64, (4, 2))', d, 'the 0.x form of read in Julia 1')
        _rejects('julia_ver1', 'io = open("i8le.bin"); a = read!(io, Array{Int65}(undef, 8))', d, 'unknown type')
        _rejects('julia_ver1', 'io = open("i8le.bin"); a = read!(io, Array{Int64}(undef, 8)); b = a[0]', d, 'index 0')
        _rejects('julia_ver1', 'io = open("i8le.bin"); a = read!(io, Array{Int64}(undef, 9))', d, 'reading past the end')
        _rejects('julia_ver1', 'io = open("i8le.bin", "w"); a = 1', d, 'write mode')
        _rejects('julia_ver1', 'function f(k)\n  k\na = 1', d, 'function without end')
    finally:
        rmtree(d)


def t_idl():
    d = _data_dir()
    try:
        a, _, _ = _run('idl', 'a = READ_BINARY("i2be.bin", DATA_DIMS=[2,4], ENDIAN="big", DATA_TYPE=2) ; keywords in any order, any case', d)
        assert a.dtype == np.int16 and a.shape == (2, 4) and a[:, 1].tolist() == [3, 4]
        a, it, _ = _run('idl', "v = read_binary('f4le.bin', data_type=4, data_dims=[3,2])\nk = 1\n"
                        "if k eq 1 then a = v[*, k:k] else a = []\nb = v[1, 0]", d)
        assert a.shape == (3,) and a.tolist() == [4, 5, 6] and float(it.env['b']) == 2.0
        _rejects('idl', 'a = read_binary("i2be.bin", data_type=7, data_dims=[8])', d, 'string type code')
        _rejects('idl', 'a = read_binary("i2be.bin", data_type=2, data_dims=[8], endian="middle")', d, 'invalid endian')
        _rejects('idl', 'a = read_binary("i2be.bin", data_type=2, data_dims=[9])', d, 'reading past the end')
        _rejects('idl', 'a = read_binary("i2be.bin", data_kind=2)', d, 'unknown keyword')
        _rejects('idl', 'v = read_binary("i2be.bin", data_type=2, data_dims=[8])\na = v[8]', d, 'subscript out of range')
        _rejects('idl', 'a = read_binary("i2be.bin", data_type=2, data_dims=[8]', d, 'unbalanced parenthesis')
    finally:
        rmtree(d)


def t_mathematica():
    d = _data_dir()
    try:
        a, _, _ = _run('mathematica', 'a = BinaryReadList["i2be.bin", "Integer16", ByteOrdering -> 1];\na = ArrayReshape[a, {2, 4}]\n', d)
        assert a.shape == (2, 4) and a[0].tolist() == [1, 2, 3, 4]
        src = ('v = BinaryReadList["f4le.bin", "Real32"]; (* a comment (* nested *) *)\n'
               'f[k_?IntegerQ] := Module[{s, e}, s = k; e = k + 1; v[[s ;; e]]]\na = f[2]\nb = v[[3 ;; 2]]\n')
        a, it, _ = _run('mathematica', src, d)
        assert a.tolist() == [2.0, 3.0] and it.env['b'] == []
        _rejects('mathematica', 'a = BinaryReadList["i2be.bin", "Integer17"];', d, 'invalid type')
        _rejects('mathematica', '(* c *):\na = BinaryReadList["i2be.bin", "Integer16"];', d, 'stray token after a comment')
        _rejects('mathematica', 'a = BinaryReadList["i2be.bin", "Integer16", ByteOrdering -> 2];', d, 'invalid byte ordering')
        _rejects('mathematica', 'v = BinaryReadList["i2be.bin", "Integer16"]; a = v[[9]];', d, 'part out of range')
        _rejects('mathematica', 'a = BinaryReadList["i2be.bin", "Integer16";', d, 'unbalanced bracket')
        _rejects('mathematica', 'a = BinaryReedList["i2be.bin", "Integer16"];', d, 'unknown symbol used as a function')
    finally:
        rmtree(d)


def t_maple():
    d = _data_dir()
    try:
        src = ('a := FileTools[Binary][Read]("i2be.bin", integer[2], output=Array, byteorder=big):\n'
               'a := ArrayTools[Reshape](a, [2, 4]);\n')
        a, _, _ = _run('maple', src, d)
        assert a.shape == (2, 4) and a[:, 1].tolist() == [3, 4]
        src = ('v := FileTools[Binary][Read]("f4le.bin", float[4], byteorder=little, output=Array);\n'
               'g := proc (k::integer) local s; s := k; v(s .. s + 1); end proc;\na := g(2); e := v(3 .. 2);\nb = g(1);\n')
        a, it, ad = _run('maple', src, d)
        assert a.tolist() == [2.0, 3.0] and it.env['e'].shape == (0,) and 'b' not in it.env and 'b' in it.unbound_equations
        _rejects('maple', 'a := FileTools[Binary][Read]("i2be.bin", integer[3], output=Array);', d, 'invalid hardware type')
        _rejects('maple', 'a := FileTools[Binary][Read]("i2be.bin", integer[2], byteorder=middle, output=Array);', d, 'invalid byteorder')
        _rejects('maple', 'v := FileTools[Binary][Read]("i2be.bin", integer[2], output=Array); a := v(9);', d, 'index out of range')
        _rejects('maple', 'a := FileTools[Binary][Read]("i2be.bin", integer[2], output=Array)\nb := 1;', d, 'missing statement terminator')
        _rejects('maple', 'a := FileTools[Binary][Raed]("i2be.bin", integer[2]);', d, 'unknown command')
    finally:
        rmtree(d)


def t_crash_engine():
    from ..engines import crash
    tv = crash.torn_versions(b'abc', b'abcdef')
    assert [t[2] for t in tv] == [b'abcd', b'abcde'], tv
    assert crash.torn_versions(b'abcdef', b'abc') == []
    tv = crash.torn_versions(b'', b'xyz')
    assert [t[2] for t in tv] == [b'x', b'xy']
    tv = crash.torn_versions(b'aaaa', b'bbbb')
    assert [t[2] for t in tv] == [b'baaa', b'bbaa', b'bbba'], tv
    tv = crash.torn_versions(None, b'xy')
    assert [t[2] for t in tv] == [b'', b'x']
    states = [({'f': b'1'}, ('p', 1, 'line', 'x')), ({'f': b'123'}, ('p', 2, 'line', 'x'))]
    snaps = list(crash.enumerate_snapshots(states, data_files=('f',)))
    assert [s[2]['f'] for s in snaps] == [b'1', b'12', b'123'], snaps


def t_sched_engine():
    """The schedule explorer closes the graph of a toy world, finds a planted ordering bug and observes a crash."""
    import os as _os
    import signal
    from ..engines import sched

    class Toy:
        def __init__(self, wd, bug):
            self.bug, self.state = bug, {'a': 0, 'b': 0}

        def build(self):
            pass

        def enabled(self):
            return [(x,) for x in ('a', 'b') if self.state[x] < 2]

        def perform(self, act, checking=True):
            self.state[act[0]] += 1
            if self.bug == 'crash' and self.state == {'a': 2, 'b': 1} and act[0] == 'b':
                _os.kill(_os.getpid(), signal.SIGSEGV)
            if self.bug == 'order' and self.state == {'a': 1, 'b': 2} and act[0] == 'a':
                return [({'oracle': 'toy', 'symptom': 'bad order', 'diverged': True}, 'a after two b', {})], 'bad'
            return [], 'ok'

        def state_invariant(self):
            return []

        def canon(self):
            return repr(sorted(self.state.items()))

        def abstract(self):
            return dict(self.state)

        def flags(self):
            return {}
    r = sched.explore(lambda wd: Toy(wd, None), procs=2)
    assert r.closed and r.states == 9 and not r.violations, (r.states, r.violations)
    r = sched.explore(lambda wd: Toy(wd, 'order'), procs=2)
    assert any(v[0].get('symptom') == 'bad order' for v in r.violations)
    r = sched.explore(lambda wd: Toy(wd, 'crash'), procs=2)
    assert any('SIGSEGV' in v[0].get('symptom', '') for v in r.violations), r.violations


TESTS = [t_matlab, t_scilab, t_r, t_julia, t_idl, t_mathematica, t_maple, t_crash_engine, t_sched_engine]

"""Mini-interpreter for the subset of IDL/GDL needed to read binary data: read_binary with keywords, array literals,
subscripts with * and ranges, IF … THEN … ELSE, relational operators.  Semantics follow the IDL reference (READ_BINARY,
"Array subscripts", IDL type codes)."""
import numpy as np

from .adapters import Adapter
from .core import FileSandbox, Inconclusive, LangError, Stream, strip_trailing_ones, tokenize

OPS = ['(', ')', '[', ']', '{', '}', ',', '=', '+', '-', '*', '/', '^', ':', '<', '>', '&', '#', '.', '?', '!', '$', '@']
TYPECODES = {1: 'u1', 2: 'i2', 3: 'i4', 4: 'f4', 5: 'f8', 6: 'c8', 9: 'c16', 12: 'u2', 13: 'u4', 14: 'i8', 15: 'u8'}
RELOPS = {'EQ', 'NE', 'LT', 'GT', 'LE', 'GE'}
KEYWORDS = {'IF', 'THEN', 'ELSE', 'BEGIN', 'END', 'ENDIF', 'ENDELSE', 'FOR', 'WHILE', 'DO', 'PRO', 'FUNCTION', 'RETURN', 'AND', 'OR',
            'NOT', 'MOD', 'EQ', 'NE', 'LT', 'GT', 'LE', 'GE', 'CASE', 'OF', 'REPEAT', 'UNTIL', 'GOTO', 'COMMON', 'FOREACH', 'SWITCH'}
UNMODELLED = {'openr', 'readu', 'free_lun', 'close', 'reform', 'transpose', 'size', 'n_elements', 'print', 'fltarr', 'dblarr',
              'intarr', 'lonarr', 'bytarr', 'make_array', 'swap_endian', 'byteorder', 'complex', 'dcomplex', 'fix', 'long', 'assoc',
              'point_lun', 'file_info', 'help', 'reverse', 'indgen', 'lindgen'}


class Null:
    """!NULL / []"""


class Star:
    pass


class Rng:
    def __init__(self, lo, hi):
        self.lo, self.hi = lo, hi


class Parser:
    def __init__(self, src):
        self.s = Stream(tokenize(src, line_comments=(';',), strings=('"', "'"), ops=OPS))

    def kw(self, name):
        t = self.s.cur
        return t.kind == 'id' and t.val.upper() == name

    def program(self):
        s = self.s
        out = []
        while True:
            while s.cur.kind == 'nl' or s.at_op('&'):
                s.next()
            if s.cur.kind == 'eof':
                return out
            out.append(self.statement())
            if not (s.cur.kind in ('nl', 'eof') or s.at_op('&')):
                raise LangError(f'line {s.cur.line}: unexpected {s.cur.val!r}')

    def statement(self):
        s = self.s
        if self.kw('IF'):
            s.next()
            cond = self.expr()
            if not self.kw('THEN'):
                raise LangError(f'line {s.cur.line}: IF without THEN')
            s.next()
            if self.kw('BEGIN'):
                raise Inconclusive('BEGIN … END blocks are not modelled')
            yes = self.statement()
            no = None
            if self.kw('ELSE'):
                s.next()
                if self.kw('BEGIN'):
                    raise Inconclusive('BEGIN … END blocks are not modelled')
                no = self.statement()
            return ('if', cond, yes, no)
        if s.cur.kind == 'id' and s.cur.val.upper() in KEYWORDS:
            raise Inconclusive(f'IDL statement {s.cur.val} is not modelled')
        if s.cur.kind == 'id' and s.peek().kind == 'op' and s.peek().val == '=':
            name = s.next().val
            s.next()
            return ('assign', name.lower(), self.expr())
        if s.cur.kind == 'id' and (s.peek().kind in ('nl', 'eof') or (s.peek().kind == 'op' and s.peek().val == ',')):
            raise Inconclusive('procedure calls are not modelled')
        return ('expr', self.expr())

    def expr(self):
        return self.or_()

    def or_(self):
        a = self.and_()
        while self.kw('OR') or self.kw('XOR'):
            op = self.s.next().val.upper()
            a = ('bin', op, a, self.and_())
        return a

    def and_(self):
        a = self.rel()
        while self.kw('AND'):
            self.s.next()
            a = ('bin', 'AND', a, self.rel())
        return a

    def rel(self):
        a = self.additive()
        while self.s.cur.kind == 'id' and self.s.cur.val.upper() in RELOPS:
            op = self.s.next().val.upper()
            a = ('bin', op, a, self.additive())
        return a

    def additive(self):
        a = self.mult()
        while self.s.at_op('+', '-', '<', '>'):
            op = self.s.next().val
            if op in '<>':
                raise Inconclusive('minimum / maximum operators are not modelled')
            a = ('bin', op, a, self.mult())
        return a

    def mult(self):
        a = self.unary()
        while self.s.at_op('*', '/') or self.kw('MOD'):
            if self.s.at_op('*') and self.s.peek().kind == 'op' and self.s.peek().val in (',', ']', ':'):
                break
            op = self.s.next().val
            a = ('bin', op, a, self.unary())
        return a

    def unary(self):
        if self.s.at_op('-', '+'):
            op = self.s.next().val
            v = self.unary()
            return ('neg', v) if op == '-' else v
        if self.kw('NOT'):
            raise Inconclusive('NOT is not modelled')
        return self.postfix()

    def postfix(self):
        s = self.s
        e = self.primary()
        while True:
            if s.at_op('[') and e[0] != 'num':
                s.next()
                e = ('index', e, self.subscripts(']'))
            elif s.at_op('(') and e[0] == 'name':
                s.next()
                e = ('call', e[1], self.callargs())
            elif s.at_op('.'):
                raise Inconclusive('structure / method access is not modelled')
            else:
                return e

    def subscripts(self, closer):
        s = self.s
        out = []
        while True:
            if s.at_op('*') and s.peek().kind == 'op' and s.peek().val in (',', closer):
                s.next()
                out.append(('star',))
            else:
                a = self.expr()
                if s.at_op(':'):
                    s.next()
                    if s.at_op('*'):
                        s.next()
                        out.append(('range', a, ('star',)))
                    else:
                        b = self.expr()
                        if s.at_op(':'):
                            raise Inconclusive('strided subscript ranges are not modelled')
                        out.append(('range', a, b))
                else:
                    out.append(a)
            if s.accept_op(','):
                continue
            s.expect_op(closer)
            return out

    def callargs(self):
        s = self.s
        pos, kws = [], []
        if s.at_op(')'):
            s.next()
            return pos, kws
        while True:
            if s.at_op('/'):
                s.next()
                kws.append((s.expect('id').val.lower(), ('num', 1)))
            elif s.cur.kind == 'id' and s.peek().kind == 'op' and s.peek().val == '=':
                name = s.next().val.lower()
                s.next()
                kws.append((name, self.expr()))
            else:
                pos.append(self.expr())
            if s.accept_op(','):
                continue
            s.expect_op(')')
            return pos, kws

    def primary(self):
        s = self.s
        t = s.cur
        if t.kind == 'num':
            s.next()
            # type suffixes: 2L, 2LL, 2B, 2U, 2UL, 2ULL, 2S, 1.0D
            if s.cur.kind == 'id' and not s.cur.space_before and s.cur.val.upper() in ('L', 'LL', 'B', 'U', 'UL', 'ULL', 'S', 'US', 'D'):
                s.next()
            return ('num', t.val)
        if t.kind == 'str':
            s.next()
            return ('str', t.val)
        if s.at_op('!'):
            s.next()
            name = s.expect('id').val.upper()
            if name == 'NULL':
                return ('null',)
            raise Inconclusive(f'system variable !{name} is not modelled')
        if t.kind == 'id':
            if t.val.upper() in KEYWORDS:
                raise LangError(f'line {t.line}: unexpected keyword {t.val}')
            s.next()
            return ('name', t.val.lower())
        if s.at_op('('):
            s.next()
            e = self.expr()
            s.expect_op(')')
            return ('paren', e)
        if s.at_op('['):
            s.next()
            if s.at_op(']'):
                s.next()
                return ('null',)
            items = []
            while True:
                items.append(self.expr())
                if s.accept_op(','):
                    continue
                s.expect_op(']')
                return ('array', items)
        raise LangError(f'line {t.line}: unexpected {t.val!r}')


class Interp:
    def __init__(self, cwd):
        self.fs = FileSandbox(cwd)
        self.env = {}

    def run(self, src):
        for st in Parser(src).program():
            self.exec_(st)
        return self.env

    def exec_(self, st):
        if st[0] == 'assign':
            self.env[st[1]] = self.ev(st[2])
        elif st[0] == 'if':
            c = self.ev(st[1])
            if isinstance(c, np.ndarray):
                if c.size != 1:
                    raise LangError('IF: expression must be a scalar or 1-element array')
                c = c.reshape(-1)[0]
            if isinstance(c, (bool, np.bool_)):
                truth = bool(c)
            elif isinstance(c, (int, np.integer)):
                truth = bool(int(c) & 1)                 # integers are true when odd
            else:
                truth = bool(c)
            if truth:
                self.exec_(st[2])
            elif st[3] is not None:
                self.exec_(st[3])
        else:
            self.ev(st[1])

    def ev(self, e):
        k = e[0]
        if k == 'num':
            return e[1]
        if k == 'str':
            return e[1]
        if k == 'null':
            return Null()
        if k == 'name':
            if e[1] not in self.env:
                raise LangError(f'variable is undefined: {e[1].upper()}')
            return self.env[e[1]]
        if k == 'paren':
            return self.ev(e[1])
        if k == 'array':
            vals = [self.ev(x) for x in e[1]]
            if any(isinstance(v, (str, Null)) for v in vals):
                raise Inconclusive('arrays of strings / nulls are not modelled')
            return np.array([self.num(v, 'array element') for v in vals])
        if k == 'neg':
            return -self.num(self.ev(e[1]), 'unary minus')
        if k == 'bin':
            op = e[1]
            a, b = self.ev(e[2]), self.ev(e[3])
            if isinstance(a, Null) or isinstance(b, Null):
                if op in ('EQ', 'NE'):
                    same = isinstance(a, Null) and isinstance(b, Null)
                    return same if op == 'EQ' else not same
                raise LangError('operation on !NULL')
            a, b = self.num(a, op), self.num(b, op)
            if op == '+':
                return a + b
            if op == '-':
                return a - b
            if op == '*':
                return a * b
            if op == '/':
                if isinstance(a, int) and isinstance(b, int):
                    if b == 0:
                        raise LangError('integer divide by zero')
                    return int(a / b)
                return a / b
            if op in RELOPS:
                return {'EQ': a == b, 'NE': a != b, 'LT': a < b, 'GT': a > b, 'LE': a <= b, 'GE': a >= b}[op]
            if op == 'AND':
                return bool(a) and bool(b)
            if op == 'OR':
                return bool(a) or bool(b)
            raise Inconclusive(f'operator {op} is not modelled')
        if k == 'index':
            return self.index(self.ev(e[1]), e[2])
        if k == 'call':
            return self.call(e[1], e[2])
        raise LangError(f'cannot evaluate {k}')

    def num(self, v, what):
        if isinstance(v, np.ndarray):
            if v.size == 1:
                v = v.reshape(-1)[0]
            else:
                raise Inconclusive('array arithmetic is not modelled')
        if isinstance(v, np.generic):
            v = v.item()
        if isinstance(v, bool):
            return int(v)
        if not isinstance(v, (int, float, complex)):
            raise LangError(f'{what}: operand is not numeric')
        return v

    def index(self, x, subs):
        if not isinstance(x, np.ndarray):
            raise LangError('subscripted value is not an array')
        dims = list(x.shape)
        if len(subs) > 8:
            raise LangError('more than 8 subscripts')
        if len(subs) > len(dims):
            dims = dims + [1] * (len(subs) - len(dims))
            x = x.reshape(dims, order='F')
        elif len(subs) < len(dims):
            if len(subs) == 1:
                raise Inconclusive('one-dimensional subscripting of multi-dimensional arrays is not modelled')
            raise Inconclusive('fewer subscripts than dimensions are not modelled')
        idx = []
        scalar_all = True
        for d, s in zip(dims, subs):
            if s[0] == 'star':
                idx.append(list(range(d)))
                scalar_all = False
            elif s[0] == 'range':
                lo = self.subscript(self.ev(s[1]), d)
                hi = d - 1 if s[2][0] == 'star' else self.subscript(self.ev(s[2]), d)
                if lo > hi:
                    raise LangError(f'illegal subscript range [{lo}:{hi}]')
                if hi > d - 1:
                    raise LangError(f'subscript range [{lo}:{hi}] out of range (dimension has {d} elements)')
                idx.append(list(range(lo, hi + 1)))
                scalar_all = False
            else:
                v = self.ev(s)
                if isinstance(v, np.ndarray) and v.size > 1:
                    raise Inconclusive('array subscripts are not modelled')
                i = self.subscript(v, d)
                if i > d - 1:
                    raise LangError(f'attempt to subscript with {i} out of range (dimension has {d} elements)')
                idx.append([i])
        out = x[np.ix_(*idx)]
        if scalar_all:
            return out.reshape(-1)[0].item() if out.dtype.kind in 'iu' else out.reshape(-1)[0]
        shape = strip_trailing_ones([len(i) for i in idx])
        return out.reshape(shape, order='F')

    def subscript(self, v, d):
        v = self.num(v, 'subscript')
        if isinstance(v, float):
            v = int(v)                 # floating subscripts are truncated
        if isinstance(v, complex):
            raise LangError('complex subscript')
        if v < 0:
            v += d                     # negative subscripts count from the end (IDL 8)
            if v < 0:
                raise LangError('subscript out of range')
        return v

    def call(self, name, args):
        pos = [self.ev(a) for a in args[0]]
        kws = [(k, self.ev(v)) for k, v in args[1]]
        if name in self.env:
            raise Inconclusive('parenthesis subscripting is not modelled')
        if name != 'read_binary':
            if name in UNMODELLED:
                raise Inconclusive(f'IDL routine {name} is not modelled')
            raise LangError(f'{name.upper()} is neither a variable nor an IDL function for reading binary data')
        valid = ['template', 'data_start', 'data_type', 'data_dims', 'endian']
        opts = {}
        for k, v in kws:
            hits = [f for f in valid if f.startswith(k)]
            if len(hits) != 1:
                raise LangError(f'READ_BINARY: keyword {k.upper()} not allowed or ambiguous')
            if hits[0] in opts:
                raise LangError(f'READ_BINARY: keyword {hits[0].upper()} given twice')
            opts[hits[0]] = v
        if len(pos) != 1:
            raise LangError('READ_BINARY takes exactly one positional argument (file name or unit)')
        if not isinstance(pos[0], str):
            raise Inconclusive('READ_BINARY on a logical unit is not modelled')
        if 'template' in opts:
            raise Inconclusive('READ_BINARY templates are not modelled')
        code = opts.get('data_type', 1)
        if isinstance(code, bool) or not isinstance(code, int):
            raise LangError('READ_BINARY: DATA_TYPE must be an integer type code')
        if code not in TYPECODES:
            raise LangError(f'READ_BINARY: DATA_TYPE {code} is not a numeric IDL type code')
        dt = np.dtype(TYPECODES[code])
        endian = opts.get('endian', 'native')
        if not isinstance(endian, str) or endian.lower() not in ('big', 'little', 'native'):
            raise LangError(f'READ_BINARY: ENDIAN must be "big", "little" or "native", got {endian!r}')
        if dt.itemsize > 1:
            dt = dt.newbyteorder({'big': '>', 'little': '<', 'native': '='}[endian.lower()])
        start = opts.get('data_start', 0)
        if isinstance(start, bool) or not isinstance(start, int) or start < 0:
            raise LangError('READ_BINARY: DATA_START must be a non-negative integer')
        data = self.fs.read_bytes(pos[0])[start:]
        dims = opts.get('data_dims', -1)
        if isinstance(dims, np.ndarray):
            dims = dims.tolist()
        elif isinstance(dims, int):
            dims = [dims]
        else:
            raise LangError('READ_BINARY: DATA_DIMS must be a scalar or an array of integers')
        if len(dims) > 8:
            raise LangError('READ_BINARY: DATA_DIMS may have at most eight elements')
        if dims == [-1]:
            n = len(data) // dt.itemsize
            return np.frombuffer(data[:n * dt.itemsize], dtype=dt).astype(dt.newbyteorder('='))
        if dims == [0]:
            return np.frombuffer(data[:dt.itemsize], dtype=dt)[0]
        for d in dims:
            if isinstance(d, bool) or int(d) != d or d < 1:
                raise LangError('READ_BINARY: DATA_DIMS must be positive integers')
        dims = [int(d) for d in dims]
        n = int(np.prod(dims))
        if len(data) < n * dt.itemsize:
            raise LangError('READ_BINARY: end of file encountered')
        flat = np.frombuffer(data[:n * dt.itemsize], dtype=dt).astype(dt.newbyteorder('='))
        return flat.reshape(strip_trailing_ones(dims), order='F')


class IdlAdapter(Adapter):
    name = 'idl'
    strips_trailing_ones = True
    index_origin = 0

    def run(self, code, cwd):
        it = Interp(cwd)
        it.run(code)
        return it

    def subarray(self, it, code, cwd, k):
        # IDL code has no accessor function: the program sets k and then evaluates an IF statement that sets sa
        import re
        new, n = re.subn(r'(?mi)^(\s*k\s*=\s*)\d+', lambda m: m.group(1) + str(k), code)
        if n != 1:
            raise LangError('the program has no single "k = <number>" statement to select the subarray')
        it2 = self.run(new, cwd)
        if 'sa' not in it2.env:
            raise LangError('the program does not set sa')
        return it2.env['sa']

    def to_numpy(self, v, var='value'):
        if isinstance(v, Null):
            return np.zeros((0,), dtype='f8')
        return super().to_numpy(v, var)


ADAPTERS = {'idl': IdlAdapter()}

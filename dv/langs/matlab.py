"""Mini-interpreter for the subset of Matlab/Octave needed to read binary data (fopen/fread/fseek/reshape/
complex/indexing/anonymous functions).  Semantics follow the MathWorks documentation of each builtin.

Values: every numeric value is an ndarray whose shape is the Matlab size (at least 2-D; scalars are 1x1) and
whose dtype is the Matlab class (double by default); char arrays are Python str; file ids are Fid objects.
"""
import numpy as np

from .core import (FileSandbox, Inconclusive, LangError, Stream, from_column_major, memory_order, tokenize)

OPS = ['==', '~=', '<=', '>=', '&&', '||', '.*', './', '.^', '(', ')', '[', ']', '{', '}', ',', ';', '=', '+', '-', '*', '/', '^',
       ':', '@', '<', '>', '~', '.', '&', '|']

PRECISIONS = {
    'int8': 'i1', 'int16': 'i2', 'int32': 'i4', 'int64': 'i8', 'uint8': 'u1', 'uint16': 'u2', 'uint32': 'u4', 'uint64': 'u8',
    'integer*1': 'i1', 'integer*2': 'i2', 'integer*4': 'i4', 'integer*8': 'i8', 'schar': 'i1', 'uchar': 'u1', 'short': 'i2',
    'ushort': 'u2', 'int': 'i4', 'uint': 'u4', 'long': 'i4', 'ulong': 'u4', 'single': 'f4', 'double': 'f8', 'float32': 'f4',
    'float64': 'f8', 'real*4': 'f4', 'real*8': 'f8', 'float': 'f4',
}
MACHINEFMT = {'n': '=', 'native': '=', 'b': '>', 'ieee-be': '>', 'l': '<', 'ieee-le': '<', 's': '>', 'ieee-be.l64': '>',
              'a': '<', 'ieee-le.l64': '<'}
KNOWN_UNMODELLED = {'zeros', 'ones', 'size', 'numel', 'length', 'permute', 'squeeze', 'cast', 'typecast', 'single',
                    'int8', 'int16', 'int32', 'int64', 'uint8', 'uint16', 'uint32', 'uint64', 'disp', 'fprintf', 'memmapfile',
                    'swapbytes', 'real', 'imag', 'transpose', 'cat', 'horzcat', 'vertcat', 'isempty', 'end', 'fgetl', 'ftell',
                    'frewind', 'feof', 'ndims', 'fullfile', 'cellfun', 'arrayfun', 'bitshift'}


class Fid:
    def __init__(self, h):
        self.h = h


class Colon:
    pass


class FuncHandle:
    def __init__(self, params, body, env):
        self.params, self.body, self.env = params, body, env


def scalar(x, dtype='f8'):
    return np.array([[x]], dtype=dtype)


def is_num(v):
    return isinstance(v, np.ndarray)


def msize(a):
    return a.shape


def numeric_scalar(v, what):
    if not is_num(v) or v.size != 1:
        raise LangError(f'{what} must be a numeric scalar, got {describe(v)}')
    return v.flatten()[0]


def describe(v):
    if isinstance(v, str):
        return f'char {v!r}'
    if is_num(v):
        return f'{v.dtype.name} array of size {list(v.shape)}'
    return type(v).__name__


# ---------------------------------------------------------------------------------------------
# parser
# ---------------------------------------------------------------------------------------------

class Parser:
    LEX = dict(line_comments=('%',), block_comments=(), strings=("'", '"'))
    KEYWORDS = ('function', 'if', 'for', 'while', 'switch', 'try', 'end', 'classdef', 'global')

    def __init__(self, src):
        self.s = Stream(tokenize(src, ops=OPS, transpose_quote=True, **self.LEX))
        self.in_index = 0
        self.in_matrix = 0

    def program(self):
        out = []
        s = self.s
        while True:
            while s.cur.kind == 'nl' or s.at_op(';') or s.at_op(','):
                s.next()
            if s.cur.kind == 'eof':
                return out
            out.append(self.statement())
            if not (s.cur.kind in ('nl', 'eof') or s.at_op(';') or s.at_op(',')):
                raise LangError(f'line {s.cur.line}: unexpected {s.cur.val!r} after statement')

    def statement(self):
        s = self.s
        if s.cur.kind == 'id' and s.cur.val in self.KEYWORDS:
            raise Inconclusive(f'statement {s.cur.val!r} is not modelled')
        if s.cur.kind == 'id' and s.peek().kind == 'op' and s.peek().val == '=' :
            name = s.next().val
            s.next()
            return ('assign', name, self.expr())
        return ('expr', self.expr())

    def expr(self):
        return self.range_()

    def range_(self):
        a = self.cmp()
        if self.s.at_op(':') and not self._colon_ends_arg():
            self.s.next()
            b = self.cmp()
            if self.s.at_op(':') and not self._colon_ends_arg():
                self.s.next()
                c = self.cmp()
                return ('range', a, c, b)
            return ('range', a, b, None)
        return a

    def _colon_ends_arg(self):
        nxt = self.s.peek()
        return nxt.kind == 'op' and nxt.val in (',', ')')

    def cmp(self):
        a = self.additive()
        while self.s.at_op('==', '~=', '<', '>', '<=', '>='):
            op = self.s.next().val
            a = ('bin', op, a, self.additive())
        return a

    def additive(self):
        a = self.mult()
        while self.s.at_op('+', '-'):
            if self.in_matrix and self.s.cur.space_before and not self.s.peek().space_before:
                break         # "[1 -2]" : a new element, not a subtraction
            op = self.s.next().val
            a = ('bin', op, a, self.mult())
        return a

    def mult(self):
        a = self.unary()
        while self.s.at_op('*', '/', '.*', './'):
            op = self.s.next().val
            a = ('bin', op, a, self.unary())
        return a

    def unary(self):
        if self.s.at_op('-', '+'):
            op = self.s.next().val
            return ('neg', self.unary()) if op == '-' else self.unary()
        return self.postfix()

    def postfix(self):
        s = self.s
        e = self.primary()
        while True:
            if s.at_op('(') and not (self.in_matrix and s.cur.space_before):
                s.next()
                args = self.args(')')
                e = ('call', e, args)
            elif s.at_op('.') and s.peek().kind == 'id':
                s.next()
                e = ('member', e, s.next().val)
            elif s.at_op("'"):
                s.next()
                e = ('ctranspose', e)
            elif s.at_op('{'):
                raise Inconclusive('cell indexing is not modelled')
            else:
                return e

    def args(self, closer):
        s = self.s
        out = []
        save, self.in_matrix = self.in_matrix, 0
        self.in_index += 1
        try:
            if s.at_op(closer):
                s.next()
                return out
            while True:
                if s.at_op(':') and s.peek().kind == 'op' and s.peek().val in (',', closer):
                    s.next()
                    out.append(('colon',))
                else:
                    out.append(self.expr())
                if s.accept_op(','):
                    continue
                s.expect_op(closer)
                return out
        finally:
            self.in_index -= 1
            self.in_matrix = save

    def primary(self):
        s = self.s
        t = s.cur
        if t.kind == 'num':
            s.next()
            return ('num', t.val)
        if t.kind == 'str':
            s.next()
            return ('str', t.val)
        if t.kind == 'id':
            s.next()
            if t.val == 'end' and self.in_index:
                raise Inconclusive("'end' in an index expression is not modelled")
            return ('name', t.val)
        if s.at_op('('):
            s.next()
            save, self.in_matrix = self.in_matrix, 0
            e = self.expr()
            self.in_matrix = save
            s.expect_op(')')
            return ('paren', e)
        if s.at_op('['):
            s.next()
            return self.matrix()
        if s.at_op('@'):
            s.next()
            if s.at_op('('):
                s.next()
                params = []
                if not s.at_op(')'):
                    while True:
                        params.append(s.expect('id').val)
                        if not s.accept_op(','):
                            break
                s.expect_op(')')
                return ('anon', params, self.expr())
            return ('fhandle', s.expect('id').val)
        raise LangError(f'line {t.line}: unexpected {t.val!r}')

    def matrix(self):
        s = self.s
        rows, row = [], []
        self.in_matrix += 1
        try:
            while True:
                while s.cur.kind == 'nl':
                    s.next()
                if s.at_op(']'):
                    s.next()
                    if row or not rows:
                        rows.append(row)
                    return ('matrix', rows)
                if s.at_op(';'):
                    s.next()
                    rows.append(row)
                    row = []
                    continue
                if s.at_op(','):
                    s.next()
                    continue
                if s.cur.kind == 'eof':
                    raise LangError('unterminated [')
                row.append(self.expr())
        finally:
            self.in_matrix -= 1


# ---------------------------------------------------------------------------------------------
# evaluator
# ---------------------------------------------------------------------------------------------

INT_KINDS = 'iu'


def saturate(val, dtype):
    info = np.iinfo(dtype)
    v = np.asarray(val)
    if v.dtype.kind == 'f':
        v = np.round(v)
    out = np.clip(v.astype(object), info.min, info.max)
    return np.array(out.tolist(), dtype=dtype).reshape(np.shape(val))


def wrap_int(val, dtype):
    info = np.iinfo(dtype)
    span = int(info.max) - int(info.min) + 1
    v = np.asarray(val, dtype=object)
    f = np.vectorize(lambda x: (int(round(x)) - int(info.min)) % span + int(info.min), otypes=[object])
    return np.array(f(v).tolist(), dtype=dtype).reshape(np.shape(val))


class Interp:
    PARSER = Parser
    LANG = 'Matlab'
    BUILTINS = ('fopen', 'fclose', 'fseek', 'fread', 'reshape', 'complex', 'half.typecast', 'double')
    UNMODELLED = KNOWN_UNMODELLED
    INT_OVERFLOW = 'saturate'

    def __init__(self, cwd):
        self.fs = FileSandbox(cwd)
        self.env = {}

    def run(self, src):
        prog = self.PARSER(src).program()
        for st in prog:
            if st[0] == 'assign':
                self.env[st[1]] = self.ev(st[2], self.env)
            else:
                v = self.ev(st[1], self.env)
                if v is not None:
                    self.env['ans'] = v
        return self.env

    # -- expressions ---------------------------------------------------------
    def ev(self, e, env):
        k = e[0]
        if k == 'num':
            return scalar(float(e[1]))
        if k == 'str':
            return e[1]
        if k == 'name':
            if e[1] in env:
                return env[e[1]]
            if e[1] in ('Inf', 'inf'):
                return scalar(np.inf)
            if e[1] == 'pi':
                return scalar(np.pi)
            return self.call_builtin(e[1], [], env)
        if k == 'paren':
            return self.ev(e[1], env)
        if k == 'neg':
            v = self.ev(e[1], env)
            if not is_num(v):
                raise LangError('unary minus on a non-numeric value')
            return -v if v.dtype.kind != 'u' else saturate(-v.astype(object), v.dtype)
        if k == 'bin':
            return self.binop(e[1], self.ev(e[2], env), self.ev(e[3], env))
        if k == 'range':
            return self.range_(self.ev(e[1], env), self.ev(e[2], env), self.ev(e[3], env) if e[3] is not None else None)
        if k == 'matrix':
            return self.matrix(e[1], env)
        if k == 'anon':
            return FuncHandle(e[1], e[2], dict(env))
        if k == 'fhandle':
            raise Inconclusive('named function handles are not modelled')
        if k == 'ctranspose':
            v = self.ev(e[1], env)
            if not is_num(v) or v.ndim != 2:
                raise LangError('transpose of a non-matrix')
            return np.conj(v.T)
        if k == 'member':
            raise LangError(f"line: field access '.{e[2]}' on a value that is not a struct or package")
        if k == 'call':
            return self.call(e, env)
        if k == 'colon':
            return Colon()
        raise LangError(f'cannot evaluate {k}')

    def binop(self, op, a, b):
        if not (is_num(a) and is_num(b)):
            raise LangError(f'operator {op} on non-numeric operands ({describe(a)}, {describe(b)})')
        ia, ib = a.dtype.kind in INT_KINDS, b.dtype.kind in INT_KINDS
        if ia and ib and a.dtype != b.dtype:
            raise LangError(f'integers of different classes ({a.dtype.name}, {b.dtype.name}) cannot be combined')
        if (ia and b.size != 1 and b.dtype.kind == 'f') or (ib and a.size != 1 and a.dtype.kind == 'f'):
            raise LangError('integers can only be combined with integers of the same class, or scalar doubles')
        if not (a.size == 1 or b.size == 1 or a.shape == b.shape):
            raise LangError(f'operator {op}: sizes {list(a.shape)} and {list(b.shape)} do not agree')
        if op in ('+', '-', '*', '.*'):
            if op == '*' and a.size != 1 and b.size != 1:
                raise Inconclusive('matrix product is not modelled')
            if ia or ib:
                dt = a.dtype if ia else b.dtype
                ao, bo = a.astype(object), b.astype(object)
                r = ao + bo if op == '+' else (ao - bo if op == '-' else ao * bo)
                return saturate(r, dt) if self.INT_OVERFLOW == 'saturate' else wrap_int(r, dt)
            return {'+': np.add, '-': np.subtract, '*': np.multiply, '.*': np.multiply}[op](a, b)
        if op in ('==', '~=', '<', '>', '<=', '>='):
            f = {'==': np.equal, '~=': np.not_equal, '<': np.less, '>': np.greater, '<=': np.less_equal, '>=': np.greater_equal}[op]
            return f(a, b)
        raise Inconclusive(f'operator {op} is not modelled')

    def range_(self, a, b, step):
        for v in (a, b) + ((step,) if step is not None else ()):
            if not is_num(v) or v.size != 1:
                raise LangError('colon operands must be scalars')
        kinds = [v.dtype for v in (a, b) if v.dtype.kind in INT_KINDS]
        dt = kinds[0] if kinds else np.dtype('f8')
        if len({d.name for d in kinds}) > 1:
            raise LangError('colon operands are integers of different classes')
        lo, hi = a.flatten()[0].item(), b.flatten()[0].item()
        st = 1 if step is None else step.flatten()[0].item()
        if st == 0 or (st > 0 and lo > hi) or (st < 0 and lo < hi):
            return np.zeros((1, 0), dtype=dt)
        n = int(np.floor((hi - lo) / st)) + 1
        vals = [lo + i * st for i in range(n)]
        return np.array(vals, dtype=dt).reshape(1, n)

    def matrix(self, rows, env):
        out_rows = []
        for row in rows:
            vals = [self.ev(x, env) for x in row]
            if any(isinstance(v, str) for v in vals):
                if all(isinstance(v, str) for v in vals):
                    out_rows.append(''.join(vals))
                    continue
                raise Inconclusive('mixed char/numeric concatenation is not modelled')
            vals = [v for v in vals if not (is_num(v) and v.size == 0)]
            if not vals:
                continue
            if any(not is_num(v) or v.ndim != 2 for v in vals):
                raise LangError('cannot concatenate these values')
            if len({v.shape[0] for v in vals}) > 1:
                raise LangError('horizontal concatenation: row counts differ')
            ints = [v.dtype for v in vals if v.dtype.kind in INT_KINDS]
            dt = ints[0] if ints else np.result_type(*[v.dtype for v in vals])
            out_rows.append(np.hstack([v.astype(dt) for v in vals]))
        if not out_rows:
            return np.zeros((0, 0))
        if isinstance(out_rows[0], str):
            if len(out_rows) > 1:
                raise Inconclusive('char matrices are not modelled')
            return out_rows[0]
        if len({r.shape[1] for r in out_rows}) > 1:
            raise LangError('vertical concatenation: column counts differ')
        return np.vstack(out_rows)

    # -- calls / indexing ------------------------------------------------------
    def call(self, e, env):
        target, args = e[1], e[2]
        if target[0] == 'member':                       # package / class function such as half.typecast
            base = target[1]
            if base[0] == 'name' and base[1] not in env:
                fname = f'{base[1]}.{target[2]}'
                return self.call_builtin(fname, [self.ev(a, env) for a in args], env)
            raise LangError('field access is not modelled for variables')
        if target[0] == 'name' and target[1] not in env:
            if any(a[0] == 'colon' for a in args):
                raise LangError(f"':' used as an argument of function {target[1]}")
            return self.call_builtin(target[1], [self.ev(a, env) for a in args], env)
        tv = self.ev(target, env)
        argv = [self.ev(a, env) for a in args]
        if isinstance(tv, FuncHandle):
            if any(isinstance(a, Colon) for a in argv):
                raise LangError("':' passed to a function handle")
            if len(argv) != len(tv.params):
                raise LangError(f'function handle takes {len(tv.params)} argument(s), {len(argv)} given')
            local = dict(tv.env)
            local.update(zip(tv.params, argv))
            return self.ev(tv.body, local)
        if is_num(tv):
            return self.index(tv, argv)
        if isinstance(tv, str):
            raise Inconclusive('indexing into char arrays is not modelled')
        raise LangError(f'a value of type {describe(tv)} cannot be indexed or called')

    def index(self, arr, subs):
        dims = list(arr.shape)
        k = len(subs)
        if k == 0:
            return arr
        flat = memory_order(arr)
        if k < len(dims):
            dims = dims[:k - 1] + [int(np.prod(dims[k - 1:]))]
        elif k > len(dims):
            dims = dims + [1] * (k - len(dims))
        idx = []
        for d, sub in zip(dims, subs):
            if isinstance(sub, Colon):
                idx.append(list(range(d)))
                continue
            if not is_num(sub):
                raise LangError(f'subscript of type {describe(sub)}')
            if sub.dtype.kind == 'b':
                raise Inconclusive('logical indexing is not modelled')
            vals = memory_order(sub).tolist()
            one = []
            for v in vals:
                if v != int(v):
                    raise LangError('subscript indices must be integers')
                v = int(v)
                if v < 1:
                    raise LangError('index must be a positive integer (Matlab indices start at 1)')
                if v > d:
                    raise LangError(f'index {v} exceeds array bounds ({d})')
                one.append(v - 1)
            idx.append(one)
        src = flat.reshape(dims, order='F')
        out = src[np.ix_(*idx)] if all(len(i) for i in idx) else np.zeros([len(i) for i in idx], dtype=arr.dtype)
        shape = [len(i) for i in idx]
        if k == 1:
            # linear indexing: orientation follows the subscript (or the source for vectors)
            n = shape[0]
            sub = subs[0]
            if isinstance(sub, Colon):
                shape = [n, 1]
            elif arr.ndim == 2 and arr.shape[0] == 1:
                shape = [1, n]
            elif arr.ndim == 2 and arr.shape[1] == 1:
                shape = [n, 1]
            else:
                shape = list(sub.shape) if sub.ndim >= 2 else [1, n]
        while len(shape) < 2:
            shape.append(1)
        while len(shape) > 2 and shape[-1] == 1:
            shape.pop()
        return np.asarray(out).reshape(shape, order='F')

    # -- builtins --------------------------------------------------------------
    def call_builtin(self, name, a, env):
        f = getattr(self, 'bi_' + name.replace('.', '_'), None) if name in self.BUILTINS else None
        if f is None:
            if name in self.UNMODELLED:
                raise Inconclusive(f'{self.LANG} function {name} is not modelled')
            raise LangError(f"'{name}' is neither a variable of the program nor a {self.LANG} function")
        return f(*a)

    def bi_fopen(self, *a):
        if not a or not isinstance(a[0], str):
            raise LangError('fopen: file name must be a character vector')
        if len(a) > 4:
            raise LangError('fopen: too many arguments')
        perm = 'r'
        if len(a) >= 2:
            if not isinstance(a[1], str):
                raise LangError('fopen: permission must be a character vector')
            perm = a[1]
        if perm.rstrip('bt') not in ('r',):
            raise LangError(f"fopen: permission {perm!r} is not read-only")
        if len(a) >= 3 and (not isinstance(a[2], str) or a[2] not in MACHINEFMT):
            raise LangError(f'fopen: invalid machine format {a[2]!r}')
        h = self.fs.open(a[0], 'r')
        h.fmt = MACHINEFMT[a[2]] if len(a) >= 3 else '='
        return Fid(h)

    def bi_fclose(self, *a):
        if len(a) != 1:
            raise LangError('fclose takes one argument')
        if isinstance(a[0], str):
            if a[0] != 'all':
                raise LangError("fclose: the only character argument is 'all'")
            for h in self.fs.handles.values():
                h.closed = True
            return None
        if not isinstance(a[0], Fid):
            raise LangError('fclose: argument is not a file identifier')
        a[0].h.closed = True
        return None

    def bi_fseek(self, *a):
        if len(a) != 3 or not isinstance(a[0], Fid):
            raise LangError('fseek(fileID, offset, origin) takes a file identifier and two more arguments')
        off = numeric_scalar(a[1], 'fseek offset')
        if off != int(off):
            raise LangError('fseek: offset must be an integer')
        org = a[2]
        if isinstance(org, str):
            if org not in ('bof', 'cof', 'eof'):
                raise LangError(f'fseek: invalid origin {org!r}')
        else:
            org = {-1: 'bof', 0: 'cof', 1: 'eof'}.get(numeric_scalar(org, 'fseek origin'))
            if org is None:
                raise LangError('fseek: invalid origin')
        h = a[0].h
        base = {'bof': 0, 'cof': h.pos, 'eof': len(h.data)}[org]
        h.pos = base + int(off)
        return scalar(0.0)

    def bi_fread(self, *a):
        if not a or not isinstance(a[0], Fid):
            raise LangError('fread: first argument must be a file identifier')
        h = a[0].h
        rest = list(a[1:])
        size = None
        prec = 'uint8=>double'
        skip = 0
        fmt = None
        if rest and is_num(rest[0]):
            size = rest.pop(0)
        if rest and isinstance(rest[0], str):
            prec = rest.pop(0)
        else:
            if rest and not is_num(rest[0]):
                raise LangError('fread: unexpected argument')
        if rest and is_num(rest[0]):
            skip = numeric_scalar(rest.pop(0), 'fread skip')
            if skip != int(skip) or skip < 0:
                raise LangError('fread: skip must be a non-negative integer')
            skip = int(skip)
        if rest and isinstance(rest[0], str):
            fmt = rest.pop(0)
            if fmt not in MACHINEFMT:
                raise LangError(f"fread: {fmt!r} is not a machine format (valid: 'n','b','l','s','a','native','ieee-be','ieee-le',"
                                f"'ieee-be.l64','ieee-le.l64')")
        if rest:
            raise LangError(f'fread: too many / misplaced arguments ({[describe(r) for r in rest]})')
        # precision
        p = prec.replace(' ', '')
        if '*' in p[1:] and not p.startswith('*') and p.split('*')[0].isdigit():
            raise Inconclusive('fread precision with a repeat count is not modelled')
        if p.startswith('*'):
            srcname = p[1:]
            outname = srcname
        elif '=>' in p:
            srcname, outname = p.split('=>')
        else:
            srcname, outname = p, 'double'
        if srcname not in PRECISIONS:
            if srcname in ('char', 'char*1', 'bit8', 'ubit8') or srcname.startswith(('bit', 'ubit')):
                raise Inconclusive(f'fread precision {srcname!r} is not modelled')
            raise LangError(f'fread: invalid precision {srcname!r}')
        if outname not in PRECISIONS and outname != 'char':
            raise LangError(f'fread: invalid output class {outname!r}')
        src_dt = np.dtype(PRECISIONS[srcname])
        out_dt = np.dtype(PRECISIONS[outname]).newbyteorder('=')
        order = MACHINEFMT[fmt] if fmt is not None else getattr(h, 'fmt', '=')
        src_dt = src_dt.newbyteorder(order) if src_dt.itemsize > 1 else src_dt
        # size
        if size is None:
            count, shape = None, None
        else:
            sv = memory_order(size).tolist()
            if len(sv) == 1:
                count = None if np.isinf(sv[0]) else sv[0]
                shape = None
            elif len(sv) == 2:
                m, n = sv
                if np.isinf(m):
                    raise LangError('fread: only the second element of sizeA may be Inf')
                count = None if np.isinf(n) else m * n
                shape = (m, n)
            else:
                raise LangError('fread: sizeA must be Inf, n or [m,n]')
            for v in sv:
                if not np.isinf(v) and (v != int(v) or v < 0):
                    raise LangError('fread: sizeA must contain non-negative integers')
        vals = []
        isz = src_dt.itemsize
        limit = None if count is None else int(count)
        while (limit is None or len(vals) < limit) and h.remaining() >= isz:
            vals.append(np.frombuffer(h.take(isz), dtype=src_dt)[0])
            if skip:
                h.pos += skip
        got = np.array(vals, dtype=src_dt).astype(src_dt.newbyteorder('='))
        if out_dt.kind in INT_KINDS and got.dtype.kind == 'f':
            got = saturate(got, out_dt)
        else:
            got = got.astype(out_dt)
        if shape is None:
            return got.reshape(len(vals), 1)
        m = int(shape[0])
        ncol = -(-len(vals) // m) if m else 0
        if not np.isinf(shape[1]) and len(vals) == m * int(shape[1]):
            ncol = int(shape[1])
        full = np.zeros(m * ncol, dtype=out_dt)
        full[:len(vals)] = got
        return full.reshape((m, ncol), order='F')

    def bi_reshape(self, *a):
        if len(a) < 2 or not is_num(a[0]):
            raise LangError('reshape(A, sz) needs an array and its new size')
        if len(a) == 2:
            dims = memory_order(a[1]).tolist() if is_num(a[1]) else None
            if dims is None or len(dims) < 2:
                raise LangError('reshape: size vector must have at least 2 elements')
        else:
            dims = [numeric_scalar(x, 'reshape dimension') for x in a[1:]]
        for d in dims:
            if d != int(d) or d < 0:
                raise LangError('reshape: size arguments must be non-negative integers')
        dims = [int(d) for d in dims]
        if int(np.prod(dims)) != a[0].size:
            raise LangError(f'reshape: number of elements must not change ({a[0].size} vs {dims})')
        while len(dims) > 2 and dims[-1] == 1:
            dims.pop()
        return from_column_major(memory_order(a[0]), dims)

    def bi_complex(self, *a):
        if len(a) != 2 or not all(is_num(x) for x in a):
            raise LangError('complex(a, b) takes two numeric arrays')
        re, im = a
        if not (re.shape == im.shape or re.size == 1 or im.size == 1):
            raise LangError('complex: inputs must be the same size')
        if re.dtype.kind in INT_KINDS or im.dtype.kind in INT_KINDS:
            raise Inconclusive('complex() of integer classes is not modelled')
        dt = np.dtype('c8') if (re.dtype == np.float32 or im.dtype == np.float32) else np.dtype('c16')
        out = np.empty(np.broadcast(re, im).shape, dtype=dt)
        out.real = re
        out.imag = im
        return out

    def bi_double(self, *a):
        if len(a) != 1 or not is_num(a[0]):
            raise LangError('double(x) takes one numeric array')
        if a[0].dtype.kind == 'c':
            return a[0].astype('c16')
        return a[0].astype('f8')

    def bi_half_typecast(self, *a):
        if len(a) != 1 or not is_num(a[0]) or a[0].dtype != np.uint16:
            raise LangError('half.typecast needs one uint16 (or int16) array')
        return a[0].view(np.float16)


def run(src, cwd):
    """-> (environment dict, sandbox)"""
    it = Interp(cwd)
    env = it.run(src)
    return env, it.fs, it


def call_function(it, name, *args):
    f = it.env.get(name)
    if not isinstance(f, FuncHandle):
        raise LangError(f'{name} is not a function handle')
    local = dict(f.env)
    if len(args) != len(f.params):
        raise LangError('wrong number of arguments')
    local.update(zip(f.params, [scalar(float(x)) for x in args]))
    return it.ev(f.body, local)

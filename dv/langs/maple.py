"""Mini-interpreter for the subset of Maple needed to read binary data: FileTools[Binary][Read/Close], ArrayTools[Reshape],
lists, ranges, Array indexing with round brackets, proc … end proc.  Semantics follow the Maple help pages
(FileTools[Binary][Read], ArrayTools[Reshape], rtable_indexing)."""
import numpy as np

from .adapters import Adapter
from .core import FileSandbox, Inconclusive, LangError, Stream, tokenize

OPS = [':=', '::', '..', '<>', '<=', '>=', '->', '(', ')', '[', ']', '{', '}', ',', ';', ':', '=', '+', '-', '*', '/', '^', '<', '>', '.', "'",
       '`', '|', '&', '@', '$', '%', '!']
KEYWORDS = {'proc', 'end', 'local', 'global', 'option', 'options', 'description', 'if', 'then', 'else', 'elif', 'fi', 'for', 'from', 'to',
            'do', 'od', 'while', 'return', 'module', 'use', 'in', 'by', 'and', 'or', 'not', 'error', 'try', 'catch', 'finally'}
UNMODELLED = {'Array', 'Matrix', 'Vector', 'seq', 'nops', 'op', 'print', 'printf', 'convert', 'rtable_dims', 'upperbound',
              'lowerbound', 'numelems', 'readbytes', 'fopen', 'fclose', 'readdata', 'map', 'evalf', 'rtable', 'Transpose',
              'with', 'ArrayDims', 'ArrayNumDims', 'ArrayNumElems'}


PACKAGES = {'FileTools': {'Binary', 'Text', 'Exists', 'Size', 'Position', 'AtEndOfFile', 'Remove', 'Status', 'IsOpen', 'JoinPath'},
            'ArrayTools': {'Reshape', 'Alias', 'Dimensions', 'Size', 'NumElems', 'Permute', 'Concatenate', 'Copy', 'DataTranspose',
                           'ElementMultiply', 'FlipDimension', 'Replicate', 'Reverse', 'ComplexAsFloat'},
            'LinearAlgebra': {'Transpose', 'Dimension'}}
FT_BINARY = {'Read', 'Write', 'Close', 'Open', 'CountBytes', 'ReadFile', 'WriteFile', 'Flush'}


class Name:
    def __init__(self, name, idx=()):
        self.name, self.idx = name, tuple(idx)

    def key(self):
        return (self.name,) + tuple((i.name if not i.idx else i.key()) if isinstance(i, Name) else i for i in self.idx)

    def __repr__(self):
        return self.name + ''.join(f'[{i}]' for i in self.idx)


class Equation:
    def __init__(self, lhs, rhs):
        self.lhs, self.rhs = lhs, rhs


class Range:
    def __init__(self, lo, hi):
        self.lo, self.hi = lo, hi


class Proc:
    def __init__(self, params, locals_, body):
        self.params, self.locals, self.body = params, locals_, body


class ReturnSignal(Exception):
    def __init__(self, v):
        self.value = v


class Parser:
    def __init__(self, src):
        self.s = Stream(tokenize(src, line_comments=('#',), block_comments=(('(*', '*)'),), strings=('"',), ops=OPS,
                                 newline_tokens=False))

    def kw(self, *names):
        t = self.s.cur
        return t.kind == 'id' and t.val in names

    def program(self, until=None):
        s = self.s
        out = []
        while True:
            while s.at_op(';') or s.at_op(':'):
                s.next()                              # empty statements
            if s.cur.kind == 'eof' or (until and self.kw(*until)):
                return out
            out.append(self.statement())
            if s.at_op(';') or s.at_op(':'):
                s.next()
                continue
            if s.cur.kind == 'eof' or (until and self.kw(*until)):
                return out                            # the last statement of a sequence needs no terminator
            raise LangError(f'line {s.cur.line}: unexpected {s.cur.val!r} (missing ; or : ?)')

    def statement(self):
        s = self.s
        if self.kw('return'):
            s.next()
            return ('return', self.expr())
        if self.kw('if', 'for', 'while', 'do', 'error', 'try', 'module', 'use'):
            raise Inconclusive(f'Maple statement {s.cur.val} is not modelled')
        e = self.expr()
        if s.at_op(':='):
            s.next()
            if e[0] != 'name':
                raise Inconclusive('assignment to an indexed / function target is not modelled')
            return ('assign', e, self.expr())
        return ('expr', e)

    def expr(self):
        return self.equation()

    def equation(self):
        a = self.range_()
        if self.s.at_op('=', '<>', '<', '>', '<=', '>='):
            op = self.s.next().val
            b = self.range_()
            return ('rel', op, a, b)
        return a

    def range_(self):
        if self.s.at_op('..'):
            # a bare ".." (whole dimension) or "..hi"
            self.s.next()
            if self._ends_arg():
                return ('fullrange',)
            return ('range', None, self.additive())
        a = self.additive()
        if self.s.at_op('..'):
            self.s.next()
            if self._ends_arg():
                return ('range', a, None)
            return ('range', a, self.additive())
        return a

    def _ends_arg(self):
        return self.s.at_op(',') or self.s.at_op(')') or self.s.at_op(']')

    def additive(self):
        a = self.mult()
        while self.s.at_op('+', '-'):
            op = self.s.next().val
            a = ('bin', op, a, self.mult())
        return a

    def mult(self):
        a = self.unary()
        while self.s.at_op('*', '/'):
            op = self.s.next().val
            a = ('bin', op, a, self.unary())
        return a

    def unary(self):
        if self.s.at_op('-', '+'):
            op = self.s.next().val
            v = self.unary()
            return ('neg', v) if op == '-' else v
        return self.postfix()

    def postfix(self):
        s = self.s
        e = self.primary()
        while True:
            if s.at_op('['):
                s.next()
                e = ('sub', e, self.seq(']'))
            elif s.at_op('('):
                s.next()
                e = ('apply', e, self.seq(')'))
            elif s.at_op('::'):
                s.next()
                self.postfix()                    # type annotation: parsed, not used
            else:
                return e

    def seq(self, closer):
        s = self.s
        out = []
        if s.at_op(closer):
            s.next()
            return out
        while True:
            out.append(self.expr())
            if s.accept_op(','):
                continue
            s.expect_op(closer)
            return out

    def primary(self):
        s = self.s
        t = s.cur
        if t.kind == 'num':
            s.next()
            return ('num', t.val)
        if t.kind == 'str':
            s.next()
            return ('str', t.val)
        if t.kind == 'id':
            if t.val == 'proc':
                return self.proc()
            if t.val in KEYWORDS:
                raise LangError(f'line {t.line}: unexpected keyword {t.val!r}')
            s.next()
            return ('name', t.val)
        if s.at_op('('):
            s.next()
            e = self.expr()
            s.expect_op(')')
            return ('paren', e)
        if s.at_op('['):
            s.next()
            return ('list', self.seq(']'))
        if s.at_op("'"):
            s.next()
            e = self.expr()
            s.expect_op("'")
            return ('uneval', e)
        raise LangError(f'line {t.line}: unexpected {t.val!r}')

    def proc(self):
        s = self.s
        s.next()
        s.expect_op('(')
        params = []
        if not s.at_op(')'):
            while True:
                name = s.expect('id').val
                if s.accept_op('::'):
                    self.postfix()
                params.append(name)
                if not s.accept_op(','):
                    break
        s.expect_op(')')
        locals_ = []
        while True:
            while s.at_op(';') or s.at_op(':'):
                s.next()
            if self.kw('local', 'global'):
                kind = s.next().val
                while True:
                    n = s.expect('id').val
                    if s.accept_op('::'):
                        self.postfix()
                    if kind == 'local':
                        locals_.append(n)
                    if not s.accept_op(','):
                        break
                continue
            if self.kw('option', 'options', 'description'):
                raise Inconclusive('proc options / description are not modelled')
            break
        body = self.program(until=('end',))
        if not self.kw('end'):
            raise LangError('proc without end')
        s.next()
        if self.kw('proc'):
            s.next()
        return ('proc', params, locals_, body)


class Interp:
    def __init__(self, cwd):
        self.fs = FileSandbox(cwd)
        self.env = {}
        self.unbound_equations = []     # top-level "x = value" statements (equations, not assignments)

    def run(self, src):
        for st in Parser(src).program():
            self.exec_(st, [self.env], top=True)
        return self.env

    def exec_(self, st, scopes, top=False):
        k = st[0]
        if k == 'assign':
            v = self.ev(st[2], scopes)
            name = st[1][1]
            for sc in reversed(scopes[1:]):
                if name in sc:
                    sc[name] = v
                    return v
            scopes[0][name] = v
            return v
        if k == 'return':
            raise ReturnSignal(self.ev(st[1], scopes))
        v = self.ev(st[1], scopes)
        if top and isinstance(v, Equation) and isinstance(v.lhs, Name):
            self.unbound_equations.append(v.lhs.name)
        return v

    def ev(self, e, scopes):
        k = e[0]
        if k == 'num':
            return e[1]
        if k == 'str':
            return e[1]
        if k == 'name':
            for sc in reversed(scopes):
                if e[1] in sc:
                    return sc[e[1]]
            return Name(e[1])
        if k == 'paren':
            return self.ev(e[1], scopes)
        if k == 'uneval':
            if e[1][0] == 'name':
                return Name(e[1][1])
            raise Inconclusive('unevaluation quotes around expressions are not modelled')
        if k == 'list':
            return [self.ev(x, scopes) for x in e[1]]
        if k == 'proc':
            return Proc(e[1], e[2], e[3])
        if k == 'neg':
            return -self.number(self.ev(e[1], scopes), '-')
        if k == 'bin':
            a, b = self.number(self.ev(e[2], scopes), e[1]), self.number(self.ev(e[3], scopes), e[1])
            if e[1] == '/':
                return a / b
            return {'+': a + b, '-': a - b, '*': a * b}[e[1]]
        if k == 'rel':
            a, b = self.ev(e[2], scopes), self.ev(e[3], scopes)
            if e[1] == '=':
                return Equation(a, b)
            raise Inconclusive('inequations are not modelled')
        if k == 'fullrange':
            return Range(None, None)
        if k == 'range':
            lo = self.ev(e[1], scopes) if e[1] is not None else None
            hi = self.ev(e[2], scopes) if e[2] is not None else None
            return Range(lo, hi)
        if k == 'sub':
            base = self.ev(e[1], scopes)
            idx = [self.ev(x, scopes) for x in e[2]]
            if isinstance(base, Name):
                return Name(base.name, base.idx + (tuple(idx) if len(idx) != 1 else (idx[0],)))
            if isinstance(base, np.ndarray):
                return self.index(base, idx, square=True)
            if isinstance(base, list):
                if len(idx) != 1:
                    raise LangError('invalid subscript selector for a list')
                i = idx[0]
                if isinstance(i, Range):
                    raise Inconclusive('list ranges are not modelled')
                if not isinstance(i, int) or i == 0 or abs(i) > len(base):
                    raise LangError('invalid subscript selector')
                return base[i - 1] if i > 0 else base[i]
            raise LangError('this object cannot be subscripted')
        if k == 'apply':
            f = self.ev(e[1], scopes)
            args = [self.ev(x, scopes) for x in e[2]]
            return self.apply(f, args, scopes)
        raise LangError(f'cannot evaluate {k}')

    def number(self, v, what):
        if isinstance(v, np.ndarray) and v.ndim == 0:
            v = v.item()
        if isinstance(v, np.generic):
            v = v.item()
        if isinstance(v, Name):
            raise Inconclusive('symbolic arithmetic is not modelled')
        if isinstance(v, bool) or not isinstance(v, (int, float, complex)):
            raise LangError(f'{what}: invalid operand')
        return v

    def apply(self, f, args, scopes):
        if isinstance(f, Proc):
            if len(args) != len(f.params):
                raise LangError('invalid number of arguments to the procedure')
            local = dict(zip(f.params, args))
            for n in f.locals:
                local.setdefault(n, Name(n))
            v = None
            try:
                for st in f.body:
                    v = self.exec_(st, [self.env, local])
            except ReturnSignal as r:
                return r.value
            return v
        if isinstance(f, np.ndarray):
            return self.index(f, args, square=False)
        if isinstance(f, Name):
            key = f.key()
            if key == ('FileTools', 'Binary', 'Read'):
                return self.ft_read(args)
            if key == ('FileTools', 'Binary', 'Close'):
                if len(args) != 1 or not isinstance(args[0], str):
                    raise LangError('FileTools[Binary][Close] takes a file name or descriptor')
                return None
            if key == ('ArrayTools', 'Reshape'):
                return self.at_reshape(args)
            if f.name in PACKAGES:
                member = key[-1] if len(key) > 1 else None
                if member in PACKAGES[f.name] or (len(key) > 2 and key[1] in PACKAGES[f.name]):
                    if len(key) > 2 and key[1] == 'Binary' and member not in FT_BINARY:
                        raise LangError(f'{f!r}: FileTools[Binary] has no command {member}')
                    raise Inconclusive(f'Maple command {f!r} is not modelled')
                raise LangError(f'{f!r}: the package {f.name} has no such command')
            if f.name in UNMODELLED:
                raise Inconclusive(f'Maple command {f!r} is not modelled')
            raise LangError(f'{f!r} is neither defined by the program nor a Maple command for reading binary data')
        raise LangError('this object cannot be applied')

    def ft_read(self, args):
        pos = [a for a in args if not isinstance(a, Equation)]
        opts = [a for a in args if isinstance(a, Equation)]
        if len(pos) < 2 or not isinstance(pos[0], str):
            raise LangError('FileTools[Binary][Read](file, type, …): file must be a string and a type must be given')
        t = pos[1]
        if not isinstance(t, Name) or len(t.idx) != 1 or t.name not in ('integer', 'float', 'complex') \
                or not isinstance(t.idx[0], int):
            raise LangError(f'FileTools[Binary][Read]: invalid hardware type {t!r}')
        size = t.idx[0]
        if t.name == 'integer':
            if size not in (1, 2, 4, 8):
                raise LangError(f'FileTools[Binary][Read]: invalid type integer[{size}]')
            dt = np.dtype(f'i{size}')
        elif t.name == 'float':
            if size not in (4, 8):
                raise LangError(f'FileTools[Binary][Read]: invalid type float[{size}]')
            dt = np.dtype(f'f{size}')
        else:
            raise Inconclusive('complex hardware types are not modelled')
        num = None
        if len(pos) >= 3:
            num = pos[2]
            if isinstance(num, bool) or not isinstance(num, int) or num < 0:
                raise LangError('FileTools[Binary][Read]: the count must be a non-negative integer')
        if len(pos) > 3:
            raise LangError('FileTools[Binary][Read]: too many arguments')
        order, output = '=', 'list'
        for o in opts:
            if not isinstance(o.lhs, Name) or o.lhs.idx:
                raise LangError('FileTools[Binary][Read]: invalid option')
            if o.lhs.name == 'byteorder':
                if not isinstance(o.rhs, Name) or o.rhs.name not in ('big', 'little', 'native', 'network'):
                    raise LangError(f'FileTools[Binary][Read]: invalid byteorder {o.rhs!r}')
                order = {'big': '>', 'network': '>', 'little': '<', 'native': '='}[o.rhs.name]
            elif o.lhs.name == 'output':
                if not isinstance(o.rhs, Name) or o.rhs.name not in ('Array', 'list', 'Vector'):
                    raise LangError(f'FileTools[Binary][Read]: invalid output {o.rhs!r}')
                output = o.rhs.name
            else:
                raise LangError(f'FileTools[Binary][Read]: unknown option {o.lhs.name}')
        if dt.itemsize > 1:
            dt = dt.newbyteorder(order)
        data = self.fs.read_bytes(pos[0])
        cnt = len(data) // dt.itemsize
        if num is not None:
            cnt = min(cnt, num)
        vals = np.frombuffer(data[:cnt * dt.itemsize], dtype=dt).astype(dt.newbyteorder('='))
        if output == 'list':
            return vals.tolist()
        return vals

    def at_reshape(self, args):
        if len(args) < 2 or not isinstance(args[0], np.ndarray):
            raise LangError('ArrayTools[Reshape](A, dims) needs an Array and its new dimensions')
        dims = args[1] if len(args) == 2 and isinstance(args[1], list) else list(args[1:])
        out = []
        for d in dims:
            if isinstance(d, Range):
                if d.lo != 1 or not isinstance(d.hi, int):
                    raise Inconclusive('Reshape with ranges not starting at 1 is not modelled')
                d = d.hi
            if isinstance(d, bool) or not isinstance(d, int) or d < 0:
                raise LangError('ArrayTools[Reshape]: dimensions must be non-negative integers')
            out.append(d)
        if int(np.prod(out)) != args[0].size:
            raise LangError(f'ArrayTools[Reshape]: the number of elements must not change ({args[0].size} vs {out})')
        return args[0].flatten(order='F').reshape(out, order='F')

    def index(self, x, subs, square):
        dims = list(x.shape)
        if len(subs) != len(dims):
            if len(subs) > len(dims):
                raise LangError(f'Array index out of range: {len(subs)} indices for a {len(dims)}-dimensional Array')
            subs = list(subs) + [Range(None, None)] * (len(dims) - len(subs))
        idx, keep = [], []
        for d, s in zip(dims, subs):
            if isinstance(s, Range):
                lo = 1 if s.lo is None else self.number(s.lo, 'index')
                hi = d if s.hi is None else self.number(s.hi, 'index')
                if lo != int(lo) or hi != int(hi):
                    raise LangError('bad index into Array')
                lo, hi = int(lo), int(hi)
                if lo < 0:
                    lo = d + 1 + lo
                if hi < 0:
                    hi = d + 1 + hi
                if hi < lo - 1 or lo < 1 or hi > d:
                    if not (hi == lo - 1 and 1 <= lo <= d + 1):
                        raise LangError(f'Array index out of range ({s.lo}..{s.hi} for extent {d})')
                idx.append(list(range(lo - 1, hi)))
                keep.append(True)
            elif isinstance(s, list):
                raise Inconclusive('list selectors are not modelled')
            else:
                v = self.number(s, 'index')
                if v != int(v):
                    raise LangError('bad index into Array')
                v = int(v)
                if v < 0:
                    v = d + 1 + v
                if v < 1 or v > d:
                    raise LangError('Array index out of range')
                idx.append([v - 1])
                keep.append(False)
        shape = [len(i) for i, kp in zip(idx, keep) if kp]
        if all(len(i) for i in idx):
            out = x[np.ix_(*idx)]
        else:
            out = np.zeros([len(i) for i in idx], dtype=x.dtype)
        if not shape:
            return out.reshape(-1)[0].item()
        return out.reshape(shape, order='F')


class MapleAdapter(Adapter):
    name = 'maple'

    def run(self, code, cwd):
        it = Interp(cwd)
        it.run(code)
        return it

    def get_var(self, it, var):
        if var not in it.env:
            if var in it.unbound_equations:
                raise LangError(f"'{var} = …' is an equation in Maple, not an assignment (:=): {var} stays unbound")
            raise LangError(f'the program does not assign the name {var}')
        return it.env[var]

    def to_numpy(self, v, var='value'):
        if isinstance(v, list):
            return np.array(v)
        return super().to_numpy(v, var)

    def call(self, it, fname, k):
        f = it.env.get(fname)
        if not isinstance(f, Proc):
            raise LangError(f'{fname} is not a procedure')
        return it.apply(f, [int(k)], [it.env])


ADAPTERS = {'maple': MapleAdapter()}

"""Mini-interpreter for the subset of Julia (0.x and 1.x) needed to read binary data: open/read/read!/Array{T}(undef,…)/
map/ltoh/ntoh/close/function … end/indexing.  Semantics follow the Julia manual (Base.read!, Base.read, Array, ranges)."""
import re

import numpy as np

from .adapters import Adapter
from .core import FileSandbox, Inconclusive, LangError, Stream, tokenize

OPS = ['...', '::', '->', '==', '!=', '<=', '>=', '&&', '||', '.+', '.-', '.*', '(', ')', '[', ']', '{', '}', ',', ';', '=', '+', '-',
       '*', '/', '^', ':', '<', '>', '!', '.', '&', '|', '$', '%']
_JID = re.compile(r'[A-Za-z_][A-Za-z0-9_]*!?(?!=)|[A-Za-z_][A-Za-z0-9_]*')

TYPES = {'Int8': 'i1', 'Int16': 'i2', 'Int32': 'i4', 'Int64': 'i8', 'UInt8': 'u1', 'UInt16': 'u2', 'UInt32': 'u4', 'UInt64': 'u8',
         'Float16': 'f2', 'Float32': 'f4', 'Float64': 'f8', 'Int': 'i8', 'UInt': 'u8', 'Bool': 'b1',
         'ComplexF32': 'c8', 'ComplexF64': 'c16', 'Complex64': 'c8', 'Complex128': 'c16'}
KEYWORDS = {'function', 'end', 'if', 'else', 'elseif', 'for', 'while', 'return', 'begin', 'let', 'do', 'try', 'catch', 'struct', 'module',
            'using', 'import', 'const', 'global', 'local', 'macro', 'quote'}
UNMODELLED = {'size', 'length', 'reshape', 'permutedims', 'zeros', 'ones', 'println', 'print', 'reinterpret', 'collect', 'seek',
              'skip', 'position', 'eof', 'readbytes!', 'Mmap', 'mmap', 'view', 'similar', 'transpose', 'vec', 'ndims', 'convert',
              'bswap', 'hton', 'htol', 'broadcast', 'real', 'imag', 'complex', 'Complex', 'isempty', 'Vector', 'Matrix', 'fill'}


class JType:
    def __init__(self, dtype):
        self.dtype = np.dtype(dtype)


class ArrayType:
    def __init__(self, elt, ndim=None):
        self.elt, self.ndim = elt, ndim


class Undef:
    pass


class ColonAll:
    pass


class JRange:
    def __init__(self, lo, hi):
        self.lo, self.hi = int(lo), int(hi)

    def values(self):
        return list(range(self.lo, self.hi + 1))


class IO:
    def __init__(self, h):
        self.h = h


class Func:
    def __init__(self, name, params, body, env):
        self.name, self.params, self.body, self.env = name, params, body, env


class Builtin:
    def __init__(self, name):
        self.name = name


class ReturnSignal(Exception):
    def __init__(self, v):
        self.value = v


class Parser:
    def __init__(self, src):
        self.s = Stream(tokenize(src, line_comments=('#',), block_comments=(('#=', '=#'),), strings=('"',), ops=OPS, id_re=_JID,
                                 nested_block_comments=True))

    def program(self, until=()):
        s = self.s
        out = []
        while True:
            while s.cur.kind == 'nl' or s.at_op(';'):
                s.next()
            if s.cur.kind == 'eof' or (s.cur.kind == 'id' and s.cur.val in until):
                return out
            out.append(self.statement())
            if not (s.cur.kind in ('nl', 'eof') or s.at_op(';') or (s.cur.kind == 'id' and s.cur.val in until)):
                raise LangError(f'line {s.cur.line}: unexpected {s.cur.val!r}')

    def statement(self):
        s = self.s
        if s.cur.kind == 'id' and s.cur.val == 'function':
            s.next()
            name = s.expect('id').val
            s.expect_op('(')
            params = []
            if not s.at_op(')'):
                while True:
                    p = s.expect('id').val
                    if s.accept_op('::'):
                        self.postfix()
                    params.append(p)
                    if not s.accept_op(','):
                        break
            s.expect_op(')')
            body = self.program(until=('end',))
            if not (s.cur.kind == 'id' and s.cur.val == 'end'):
                raise LangError("function without matching 'end'")
            s.next()
            return ('function', name, params, body)
        if s.cur.kind == 'id' and s.cur.val == 'return':
            s.next()
            if s.cur.kind in ('nl', 'eof') or s.at_op(';'):
                return ('return', None)
            return ('return', self.expr())
        if s.cur.kind == 'id' and s.cur.val in KEYWORDS:
            raise Inconclusive(f'Julia statement {s.cur.val!r} is not modelled')
        e = self.expr()
        if s.at_op('='):
            s.next()
            s.skip_nl()
            rhs = self.expr()
            if e[0] == 'call' and e[1][0] == 'name':              # short-form function definition f(k) = expr
                params = []
                for a in e[2]:
                    if a[0] != 'name':
                        raise Inconclusive('destructuring in short function definitions is not modelled')
                    params.append(a[1])
                return ('function', e[1][1], params, [('expr', rhs)])
            if e[0] != 'name':
                raise Inconclusive('assignment to an indexed target is not modelled')
            return ('assign', e[1], rhs)
        return ('expr', e)

    def expr(self):
        return self.cmp()

    def cmp(self):
        a = self.range_()
        while self.s.at_op('==', '!=', '<', '>', '<=', '>='):
            op = self.s.next().val
            a = ('bin', op, a, self.range_())
        return a

    def range_(self):
        a = self.additive()
        if self.s.at_op(':') and not self._bare_colon_follows():
            self.s.next()
            b = self.additive()
            if self.s.at_op(':'):
                raise Inconclusive('stepped ranges are not modelled')
            return ('range', a, b)
        return a

    def _bare_colon_follows(self):
        n = self.s.peek()
        return n.kind == 'op' and n.val in (',', ']', ')')

    def additive(self):
        a = self.mult()
        while self.s.at_op('+', '-'):
            op = self.s.next().val
            a = ('bin', op, a, self.mult())
        return a

    def mult(self):
        a = self.unary()
        while self.s.at_op('*', '/'):
            op = self.s.next().val
            a = ('bin', op, a, self.unary())
        return a

    def unary(self):
        if self.s.at_op('-', '+'):
            op = self.s.next().val
            v = self.unary()
            return ('neg', v) if op == '-' else v
        return self.postfix()

    def postfix(self):
        s = self.s
        e = self.primary()
        while True:
            if s.at_op('(') and not s.cur.space_before:
                s.next()
                e = ('call', e, self.items(')'))
            elif s.at_op('[') and not s.cur.space_before:
                s.next()
                e = ('index', e, self.items(']', allow_colon=True))
            elif s.at_op('{') and not s.cur.space_before:
                s.next()
                e = ('curly', e, self.items('}'))
            elif s.at_op('.') and s.peek().kind == 'id':
                s.next()
                e = ('dot', e, s.next().val)
            else:
                return e

    def items(self, closer, allow_colon=False):
        s = self.s
        out = []
        s.skip_nl()
        if s.at_op(closer):
            s.next()
            return out
        while True:
            s.skip_nl()
            if allow_colon and s.at_op(':') and s.peek().kind == 'op' and s.peek().val in (',', closer):
                s.next()
                out.append(('colon',))
            elif s.at_op(closer):                    # trailing comma
                s.next()
                return out
            else:
                e = self.expr()
                if s.at_op('=') and e[0] == 'name':
                    raise Inconclusive('keyword arguments are not modelled')
                out.append(e)
            s.skip_nl()
            if s.accept_op(','):
                continue
            s.expect_op(closer)
            return out

    def primary(self):
        s = self.s
        t = s.cur
        if t.kind == 'num':
            s.next()
            return ('num', t.val)
        if t.kind == 'str':
            s.next()
            return ('str', t.val)
        if t.kind == 'id':
            if t.val in KEYWORDS:
                raise LangError(f'line {t.line}: unexpected keyword {t.val!r}')
            s.next()
            return ('name', t.val)
        if s.at_op('('):
            s.next()
            s.skip_nl()
            if s.at_op(')'):
                s.next()
                return ('tuple', [])
            first = self.expr()
            s.skip_nl()
            if s.at_op(','):
                items = [first]
                while s.accept_op(','):
                    s.skip_nl()
                    if s.at_op(')'):
                        break
                    items.append(self.expr())
                    s.skip_nl()
                s.expect_op(')')
                return ('tuple', items)
            s.expect_op(')')
            return ('paren', first)
        if s.at_op('['):
            s.next()
            items = self.items(']')
            return ('vect', items)
        if s.at_op(':') and s.peek().kind == 'op' and s.peek().val in (',', ']'):
            s.next()
            return ('colon',)
        raise LangError(f'line {t.line}: unexpected {t.val!r}')


class Interp:
    def __init__(self, cwd, version=1):
        self.fs = FileSandbox(cwd)
        self.env = {}
        self.version = version

    def run(self, src):
        for st in Parser(src).program():
            self.exec_(st, self.env)
        return self.env

    def exec_(self, st, env):
        k = st[0]
        if k == 'assign':
            env[st[1]] = self.ev(st[2], env)
            return env[st[1]]
        if k == 'function':
            env[st[1]] = Func(st[1], st[2], st[3], env)
            return env[st[1]]
        if k == 'return':
            raise ReturnSignal(self.ev(st[1], env) if st[1] is not None else None)
        return self.ev(st[1], env)

    def lookup(self, name, env):
        scope = env
        while scope is not None:
            if name in scope:
                return scope[name]
            scope = scope.get('__parent__')
        if name in TYPES:
            return JType(TYPES[name])
        if name == 'undef':
            return Undef()
        if name in ('Array', 'Complex'):
            return Builtin(name)
        if hasattr(self, 'bi_' + name.replace('!', '_b')):
            return Builtin(name)
        if name in UNMODELLED:
            raise Inconclusive(f'Julia function {name} is not modelled')
        raise LangError(f'UndefVarError: {name} not defined')

    def ev(self, e, env):
        k = e[0]
        if k == 'num':
            return e[1]
        if k == 'str':
            return e[1]
        if k == 'name':
            return self.lookup(e[1], env)
        if k == 'paren':
            return self.ev(e[1], env)
        if k == 'tuple':
            return tuple(self.ev(x, env) for x in e[1])
        if k == 'vect':
            vals = [self.ev(x, env) for x in e[1]]
            return np.array(vals)
        if k == 'colon':
            return ColonAll()
        if k == 'neg':
            return -self.scalar(self.ev(e[1], env), 'unary minus')
        if k == 'bin':
            a, b = self.scalar(self.ev(e[2], env), e[1]), self.scalar(self.ev(e[3], env), e[1])
            op = e[1]
            if op == '+':
                return self.fix(a + b, a, b)
            if op == '-':
                return self.fix(a - b, a, b)
            if op == '*':
                return self.fix(a * b, a, b)
            if op == '/':
                return float(a) / float(b)
            return {'==': a == b, '!=': a != b, '<': a < b, '>': a > b, '<=': a <= b, '>=': a >= b}[op]
        if k == 'range':
            a, b = self.scalar(self.ev(e[1], env), ':'), self.scalar(self.ev(e[2], env), ':')
            if a != int(a) or b != int(b):
                raise Inconclusive('non-integer ranges are not modelled')
            return JRange(a, b)
        if k == 'curly':
            base = self.ev(e[1], env)
            params = [self.ev(x, env) for x in e[2]]
            if isinstance(base, Builtin) and base.name == 'Array':
                if not params or not isinstance(params[0], JType) or len(params) > 2:
                    raise LangError('Array{T,N}: T must be a type')
                nd = None
                if len(params) == 2:
                    if not isinstance(params[1], int):
                        raise LangError('Array{T,N}: N must be an integer')
                    nd = params[1]
                return ArrayType(params[0], nd)
            if isinstance(base, Builtin) and base.name == 'Complex':
                if len(params) != 1 or not isinstance(params[0], JType) or params[0].dtype.kind != 'f':
                    raise LangError('Complex{T}: T must be a real type')
                if params[0].dtype.itemsize == 2:
                    raise Inconclusive('Complex{Float16} is not modelled')
                return JType('c8' if params[0].dtype.itemsize == 4 else 'c16')
            raise LangError('type parameters applied to something that is not a parametric type')
        if k == 'call':
            f = self.ev(e[1], env)
            args = [self.ev(a, env) for a in e[2]]
            return self.apply(f, args)
        if k == 'index':
            return self.index(self.ev(e[1], env), [self.ev(a, env) for a in e[2]])
        if k == 'dot':
            raise Inconclusive('field / module access is not modelled')
        raise LangError(f'cannot evaluate {k}')

    def fix(self, r, a, b):
        return r

    def scalar(self, v, what):
        if isinstance(v, np.ndarray) and v.ndim == 0:
            v = v.item()
        if isinstance(v, np.generic):
            v = v.item()
        if isinstance(v, bool) or not isinstance(v, (int, float)):
            raise LangError(f'MethodError: {what} needs numbers, got {type(v).__name__}')
        return v

    def apply(self, f, args):
        if isinstance(f, Func):
            if len(args) != len(f.params):
                raise LangError(f'MethodError: no method matching {f.name} with {len(args)} arguments')
            local = {'__parent__': f.env}
            local.update(zip(f.params, args))
            v = None
            try:
                for st in f.body:
                    v = self.exec_(st, local)
            except ReturnSignal as r:
                return r.value
            return v
        if isinstance(f, ArrayType):
            return self.construct(f, args)
        if isinstance(f, Builtin):
            m = getattr(self, 'bi_' + f.name.replace('!', '_b'), None)
            if m is None:
                raise LangError(f'{f.name} is not callable like this')
            return m(*args)
        if isinstance(f, JType):
            raise Inconclusive('type conversion calls are not modelled')
        raise LangError('MethodError: objects of this type are not callable')

    def construct(self, t, args):
        if not args or not isinstance(args[0], Undef):
            raise Inconclusive('only Array{T}(undef, dims...) is modelled')
        dims = args[1:]
        if len(dims) == 1 and isinstance(dims[0], tuple):
            dims = dims[0]
        for d in dims:
            if isinstance(d, bool) or not isinstance(d, int) or d < 0:
                raise LangError('Array dimensions must be non-negative integers')
        if t.ndim is not None and t.ndim != len(dims):
            raise LangError('Array{T,N}: N does not match the number of dimensions')
        return np.zeros(tuple(dims), dtype=t.elt.dtype.newbyteorder('='), order='F')

    # -- builtins --------------------------------------------------------------------------
    def bi_open(self, *a):
        if not a or not isinstance(a[0], str) or len(a) > 2:
            raise LangError('open(filename, [mode]) needs a file name string')
        mode = a[1] if len(a) == 2 else 'r'
        if mode not in ('r', 'w', 'a', 'r+', 'w+', 'a+'):
            raise LangError(f'open: invalid mode {mode!r}')
        if mode != 'r':
            raise LangError(f'open: mode {mode!r} is not read-only')
        return IO(self.fs.open(a[0], 'r'))

    def bi_close(self, *a):
        if len(a) != 1 or not isinstance(a[0], IO):
            raise LangError('close needs one IO stream')
        a[0].h.closed = True
        return None

    def bi_read_b(self, *a):
        if len(a) != 2 or not isinstance(a[0], IO) or not isinstance(a[1], np.ndarray):
            raise LangError('read!(io, array) needs a stream and an array')
        arr = a[1]
        raw = a[0].h.take(arr.size * arr.dtype.itemsize)
        if len(raw) < arr.size * arr.dtype.itemsize:
            raise LangError('EOFError: read! reached the end of the file')
        return np.frombuffer(raw, dtype=arr.dtype).reshape(arr.shape, order='F')

    def bi_read(self, *a):
        if self.version >= 1 and len(a) == 3:
            raise LangError('MethodError: read(io, T, dims) does not exist in Julia 1.x (use read!)')
        if len(a) < 2 or not isinstance(a[0], IO) or not isinstance(a[1], JType):
            raise Inconclusive('this form of read is not modelled')
        dims = a[2:]
        if len(dims) == 1 and isinstance(dims[0], tuple):
            dims = dims[0]
        if not dims:
            raw = a[0].h.take(a[1].dtype.itemsize)
            return np.frombuffer(raw, dtype=a[1].dtype)[0]
        for d in dims:
            if isinstance(d, bool) or not isinstance(d, int) or d < 0:
                raise LangError('read: dimensions must be non-negative integers')
        return self.bi_read_b(a[0], np.zeros(tuple(dims), dtype=a[1].dtype, order='F'))

    def bi_map(self, *a):
        if len(a) != 2 or not isinstance(a[0], Builtin) or a[0].name not in ('ltoh', 'ntoh', 'hton', 'htol', 'bswap', 'identity'):
            raise Inconclusive('map with this function is not modelled')
        if not isinstance(a[1], np.ndarray):
            raise Inconclusive('map over a non-array is not modelled')
        swap = a[0].name in ('ntoh', 'hton', 'bswap')          # little-endian host
        arr = a[1]
        if not swap or arr.dtype.itemsize == 1:
            return arr.copy()
        if arr.dtype.kind == 'c':                               # lenient reading: both components are swapped
            flat = np.ascontiguousarray(arr.flatten(order='F'))
            half = flat.view(f'f{arr.dtype.itemsize // 2}').byteswap()
            return half.view(arr.dtype).reshape(arr.shape, order='F')
        return arr.byteswap()

    def bi_ltoh(self, *a):
        raise Inconclusive('scalar byte-order calls are not modelled')

    bi_ntoh = bi_hton = bi_htol = bi_ltoh

    # -- indexing ----------------------------------------------------------------------------
    def index(self, x, subs):
        if not isinstance(x, np.ndarray):
            raise LangError('MethodError: this value cannot be indexed')
        dims = list(x.shape)
        if len(subs) != len(dims):
            if len(subs) > len(dims) or len(subs) == 1:
                raise Inconclusive('linear / trailing-1 indexing is not modelled')
            raise LangError(f'BoundsError: {len(subs)} indices for a {len(dims)}-dimensional array')
        idx, keep = [], []
        for d, s in zip(dims, subs):
            if isinstance(s, ColonAll):
                idx.append(list(range(d)))
                keep.append(True)
            elif isinstance(s, JRange):
                vals = s.values()
                if vals and (vals[0] < 1 or vals[-1] > d):
                    raise LangError(f'BoundsError: range {s.lo}:{s.hi} outside 1:{d}')
                idx.append([v - 1 for v in vals])
                keep.append(True)
            else:
                v = self.scalar(s, 'index')
                if v != int(v):
                    raise LangError('ArgumentError: invalid index (not an integer)')
                v = int(v)
                if v < 1 or v > d:
                    raise LangError(f'BoundsError: index {v} outside 1:{d}')
                idx.append([v - 1])
                keep.append(False)
        shape = [len(i) for i, kp in zip(idx, keep) if kp]
        if all(len(i) for i in idx):
            out = x[np.ix_(*idx)]
        else:
            out = np.zeros([len(i) for i in idx], dtype=x.dtype)
        if not shape:
            return out.reshape(()).item() if out.dtype.kind in 'iu' else out.reshape(())[()]
        return out.reshape(shape, order='F')


class JuliaAdapter(Adapter):
    name = 'julia'

    def __init__(self, version):
        self.version = version

    def run(self, code, cwd):
        it = Interp(cwd, self.version)
        it.run(code)
        return it

    def call(self, it, fname, k):
        f = it.env.get(fname)
        if not isinstance(f, Func):
            raise LangError(f'{fname} is not a function')
        return it.apply(f, [int(k)])


ADAPTERS = {'julia_ver0': JuliaAdapter(0), 'julia_ver1': JuliaAdapter(1), 'julia': JuliaAdapter(1)}

"""Mini-interpreter for the subset of the Wolfram Language needed to read binary data: BinaryReadList, ArrayReshape, lists,
Part [[ ]], Span ;;, rules, Set / SetDelayed with pattern arguments, Module, CompoundExpression.  Semantics follow the
Wolfram Language reference pages of each symbol."""
import re

import numpy as np

from .adapters import Adapter
from .core import FileSandbox, Inconclusive, LangError, Stream, tokenize

OPS = ['[[', ']]', ':=', '->', ':>', ';;', '==', '!=', '<=', '>=', '&&', '||', '/@', '@@', '//', '/.', '(', ')', '[', ']', '{', '}', ',',
       ';', '=', '+', '-', '*', '/', '^', ':', '<', '>', '!', '?', '_', '&', '|', '@', '#', '.', "'"]
TYPES = {'Byte': 'u1', 'Integer8': 'i1', 'Integer16': 'i2', 'Integer32': 'i4', 'Integer64': 'i8', 'UnsignedInteger8': 'u1',
         'UnsignedInteger16': 'u2', 'UnsignedInteger32': 'u4', 'UnsignedInteger64': 'u8', 'Real32': 'f4', 'Real64': 'f8',
         'Complex64': 'c8', 'Complex128': 'c16'}
OTHER_TYPES = {'Integer24', 'Integer128', 'UnsignedInteger24', 'UnsignedInteger128', 'Real128', 'Complex256', 'Character8',
               'Character16', 'Character32', 'TerminatedString', 'Real16'}
_MID = re.compile(r'[A-Za-z$][A-Za-z0-9$]*')       # the underscore is the Blank pattern, not a letter
UNMODELLED = {'Partition', 'Transpose', 'Dimensions', 'Length', 'Table', 'Take', 'Drop', 'Flatten', 'Print', 'Import', 'BinaryRead',
              'OpenRead', 'Close', 'Reverse', 'Range', 'Map', 'If', 'Part', 'Span', 'Block', 'With', 'First', 'Last', 'Developer'}


class Pattern:
    def __init__(self, name, test):
        self.name, self.test = name, test


class Rule:
    def __init__(self, lhs, rhs):
        self.lhs, self.rhs = lhs, rhs


class Symbol:
    def __init__(self, name):
        self.name = name

    def __eq__(self, o):
        return isinstance(o, Symbol) and o.name == self.name

    def __hash__(self):
        return hash(self.name)


class SpanV:
    def __init__(self, lo, hi):
        self.lo, self.hi = lo, hi


class Definition:
    def __init__(self, params, body):
        self.params, self.body = params, body


class Parser:
    """Newlines end an expression at top level when it is complete (the front end / script reader rule)."""

    def __init__(self, src):
        self.s = Stream(tokenize(src, block_comments=(('(*', '*)'),), strings=('"',), ops=OPS, nested_block_comments=True, id_re=_MID))
        self.depth = 0

    def skip_nl(self):
        self.s.skip_nl()

    def nl_ok(self):
        """inside brackets newlines never terminate"""
        if self.depth:
            self.s.skip_nl()

    def program(self):
        s = self.s
        out = []
        while True:
            s.skip_nl()
            if s.cur.kind == 'eof':
                return out
            out.append(self.compound())
            if s.cur.kind not in ('nl', 'eof'):
                raise LangError(f'line {s.cur.line}: unexpected {s.cur.val!r}')

    def compound(self):
        """a ; b ; c   (a trailing ; gives Null)"""
        items = [self.assign()]
        trailing = False
        while self.s.at_op(';'):
            self.s.next()
            self.nl_ok()
            t = self.s.cur
            if t.kind in ('nl', 'eof') or (t.kind == 'op' and t.val in (')', ']', '}', ',', ']]')):
                trailing = True
                break
            items.append(self.assign())
        if len(items) == 1 and not trailing:
            return items[0]
        return ('compound', items, trailing)

    def after_binary(self):
        self.s.skip_nl()          # an operator at the end of a line continues the expression

    def assign(self):
        a = self.rule()
        if self.s.at_op('='):
            self.s.next()
            self.after_binary()
            return ('set', a, self.assign())
        if self.s.at_op(':='):
            self.s.next()
            self.after_binary()
            return ('setdelayed', a, self.assign())
        return a

    def rule(self):
        a = self.or_()
        if self.s.at_op('->', ':>'):
            self.s.next()
            self.after_binary()
            return ('rule', a, self.rule())
        return a

    def or_(self):
        a = self.cmp()
        while self.s.at_op('&&', '||'):
            op = self.s.next().val
            self.after_binary()
            a = ('bin', op, a, self.cmp())
        return a

    def cmp(self):
        a = self.span()
        while self.s.at_op('==', '!=', '<', '>', '<=', '>='):
            op = self.s.next().val
            self.after_binary()
            a = ('bin', op, a, self.span())
        return a

    def span(self):
        a = self.additive()
        if self.s.at_op(';;'):
            self.s.next()
            self.after_binary()
            b = self.additive()
            if self.s.at_op(';;'):
                raise Inconclusive('stepped spans are not modelled')
            return ('span', a, b)
        return a

    def additive(self):
        a = self.mult()
        while self.s.at_op('+', '-'):
            op = self.s.next().val
            self.after_binary()
            a = ('bin', op, a, self.mult())
        return a

    def mult(self):
        a = self.unary()
        while self.s.at_op('*', '/'):
            op = self.s.next().val
            self.after_binary()
            a = ('bin', op, a, self.unary())
        return a

    def unary(self):
        if self.s.at_op('-', '+'):
            op = self.s.next().val
            v = self.unary()
            return ('neg', v) if op == '-' else v
        return self.postfix()

    def postfix(self):
        s = self.s
        e = self.primary()
        while True:
            if s.at_op('[['):
                s.next()
                self.depth += 1
                args = self.seq(']]')
                self.depth -= 1
                e = ('part', e, args)
            elif s.at_op('['):
                s.next()
                self.depth += 1
                args = self.seq(']')
                self.depth -= 1
                e = ('call', e, args)
            else:
                return e

    def seq(self, closer):
        s = self.s
        out = []
        s.skip_nl()
        if self._closes(closer):
            self._close(closer)
            return out
        while True:
            s.skip_nl()
            out.append(self.compound())
            s.skip_nl()
            if s.accept_op(','):
                continue
            self._close(closer)
            return out

    def _closes(self, closer):
        s = self.s
        if closer == ']]':
            return s.at_op(']]') or (s.at_op(']') and s.peek().kind == 'op' and s.peek().val == ']')
        return s.at_op(closer) or (closer == ']' and s.at_op(']]'))

    def _close(self, closer):
        s = self.s
        if closer == ']]':
            if s.at_op(']]'):
                s.next()
                return
            if s.at_op(']') and s.peek().kind == 'op' and s.peek().val == ']':
                s.next()
                s.next()
                return
            raise LangError(f'line {s.cur.line}: expected ]] , found {s.cur.val!r}')
        if closer == ']' and s.at_op(']]'):
            # "]]" closing two call brackets: split the token
            t = s.cur
            t.val = ']'
            return
        s.expect_op(closer)

    def primary(self):
        s = self.s
        t = s.cur
        if t.kind == 'num':
            s.next()
            return ('num', t.val)
        if t.kind == 'str':
            s.next()
            return ('str', t.val)
        if t.kind == 'id':
            s.next()
            name = t.val
            if s.at_op('_') and not s.cur.space_before:
                s.next()
                head = None
                if s.cur.kind == 'id' and not s.cur.space_before:
                    head = s.next().val
                test = None
                if s.at_op('?'):
                    s.next()
                    test = s.expect('id').val
                return ('pattern', name, head, test)
            return ('sym', name)
        if s.at_op('{'):
            s.next()
            self.depth += 1
            items = self.seq('}')
            self.depth -= 1
            return ('list', items)
        if s.at_op('('):
            s.next()
            self.depth += 1
            s.skip_nl()
            e = self.compound()
            s.skip_nl()
            self.depth -= 1
            s.expect_op(')')
            return ('paren', e)
        raise LangError(f'line {t.line}: unexpected {t.val!r} (syntax error)')


class Interp:
    def __init__(self, cwd):
        self.fs = FileSandbox(cwd)
        self.env = {}         # global symbols (OwnValues)
        self.defs = {}        # DownValues

    def run(self, src):
        for e in Parser(src).program():
            self.ev(e, [self.env])
        return self.env

    def lookup(self, name, scopes):
        for sc in reversed(scopes):
            if name in sc:
                return sc[name]
        return Symbol(name)

    def ev(self, e, scopes):
        k = e[0]
        if k == 'num':
            return e[1]
        if k == 'str':
            return e[1]
        if k == 'sym':
            return self.lookup(e[1], scopes)
        if k == 'paren':
            return self.ev(e[1], scopes)
        if k == 'list':
            return [self.ev(x, scopes) for x in e[1]]
        if k == 'compound':
            v = None
            for x in e[1]:
                v = self.ev(x, scopes)
            return None if e[2] else v
        if k == 'neg':
            return -self.number(self.ev(e[1], scopes), 'Minus')
        if k == 'bin':
            a, b = self.number(self.ev(e[2], scopes), e[1]), self.number(self.ev(e[3], scopes), e[1])
            op = e[1]
            if op == '/':
                return a / b
            return {'+': lambda: a + b, '-': lambda: a - b, '*': lambda: a * b, '==': lambda: a == b, '!=': lambda: a != b,
                    '<': lambda: a < b, '>': lambda: a > b, '<=': lambda: a <= b, '>=': lambda: a >= b,
                    '&&': lambda: bool(a) and bool(b), '||': lambda: bool(a) or bool(b)}[op]()
        if k == 'span':
            return SpanV(self.ev(e[1], scopes), self.ev(e[2], scopes))
        if k == 'rule':
            lhs = e[1]
            return Rule(Symbol(lhs[1]) if lhs[0] == 'sym' else self.ev(lhs, scopes), self.ev(e[2], scopes))
        if k == 'pattern':
            raise LangError('a pattern is used outside the left-hand side of a definition')
        if k == 'set':
            tgt = e[1]
            if tgt[0] == 'sym':
                v = self.ev(e[2], scopes)
                self.assign(tgt[1], v, scopes)
                return v
            if tgt[0] == 'call':
                raise Inconclusive('immediate definitions f[x_] = … are not modelled')
            raise Inconclusive('assignment to parts is not modelled')
        if k == 'setdelayed':
            tgt = e[1]
            if tgt[0] == 'call' and tgt[1][0] == 'sym':
                params = []
                for p in tgt[2]:
                    if p[0] != 'pattern':
                        raise Inconclusive('definitions with literal arguments are not modelled')
                    if p[3] not in (None, 'IntegerQ', 'NumberQ', 'NumericQ'):
                        raise Inconclusive(f'pattern test {p[3]} is not modelled')
                    if p[2] not in (None, 'Integer', 'Real'):
                        raise Inconclusive(f'pattern head {p[2]} is not modelled')
                    params.append(Pattern(p[1], p[3] or p[2]))
                self.defs[tgt[1][1]] = Definition(params, e[2])
                return None
            if tgt[0] == 'sym':
                raise Inconclusive('delayed own-values are not modelled')
            raise LangError('SetDelayed: left-hand side is not a symbol or a pattern f[args]')
        if k == 'call':
            return self.call(e, scopes)
        if k == 'part':
            return self.part(self.ev(e[1], scopes), [self.ev(a, scopes) for a in e[2]])
        raise LangError(f'cannot evaluate {k}')

    def assign(self, name, v, scopes):
        for sc in reversed(scopes):
            if name in sc:
                sc[name] = v
                return
        scopes[0][name] = v            # a new global symbol

    def number(self, v, what):
        if isinstance(v, Symbol):
            raise LangError(f'{what}: the symbol {v.name} has no value')
        if isinstance(v, bool) or not isinstance(v, (int, float, complex)):
            raise Inconclusive(f'{what} on non-numbers is not modelled')
        return v

    def call(self, e, scopes):
        head = e[1]
        if head[0] != 'sym':
            raise Inconclusive('calls with computed heads are not modelled')
        name = head[1]
        if name == 'Module':
            if len(e[2]) != 2 or e[2][0][0] != 'list':
                raise LangError('Module[{vars}, body] needs a list of local variables and a body')
            local = {}
            for v in e[2][0][1]:
                if v[0] == 'sym':
                    local[v[1]] = Symbol(v[1] + '$')
                elif v[0] == 'set' and v[1][0] == 'sym':
                    local[v[1][1]] = self.ev(v[2], scopes)
                else:
                    raise LangError('Module: local variable specification is not a symbol or an assignment')
            return self.ev(e[2][1], scopes + [local])
        args = [self.ev(a, scopes) for a in e[2]]
        if name in self.defs:
            d = self.defs[name]
            if len(args) == len(d.params) and all(self.matches(p, a) for p, a in zip(d.params, args)):
                return self.ev(d.body, [self.env, dict(zip([p.name for p in d.params], args))])
            raise LangError(f'{name}[…] does not match its definition (stays unevaluated)')
        f = getattr(self, 'bi_' + name, None)
        if f is None:
            if name in UNMODELLED:
                raise Inconclusive(f'Wolfram Language function {name} is not modelled')
            raise LangError(f'{name} is neither defined by the program nor a built-in symbol for reading binary data')
        return f(*args)

    def matches(self, p, a):
        if p.test in ('IntegerQ', 'Integer'):
            return isinstance(a, int) and not isinstance(a, bool)
        if p.test in ('NumberQ', 'NumericQ', 'Real'):
            return isinstance(a, (int, float))
        return True

    # -- builtins ---------------------------------------------------------------------------
    def bi_BinaryReadList(self, *a):
        pos = [x for x in a if not isinstance(x, Rule)]
        opts = [x for x in a if isinstance(x, Rule)]
        if not pos or not isinstance(pos[0], str):
            raise LangError('BinaryReadList: first argument must be a file name (or stream)')
        typ = 'Byte'
        if len(pos) >= 2:
            typ = pos[1]
        if isinstance(typ, list):
            raise Inconclusive('BinaryReadList with a list of types is not modelled')
        if not isinstance(typ, str):
            raise LangError('BinaryReadList: the type must be a string such as "Integer32"')
        if typ not in TYPES:
            if typ in OTHER_TYPES:
                raise Inconclusive(f'BinaryReadList type {typ} is not modelled')
            raise LangError(f'BinaryReadList: {typ!r} is not a valid binary type')
        n = None
        if len(pos) >= 3:
            n = pos[2]
            if isinstance(n, bool) or not isinstance(n, int) or n < 0:
                raise LangError('BinaryReadList: n must be a non-negative integer')
        if len(pos) > 3:
            raise LangError('BinaryReadList called with too many arguments')
        order = -1                                        # $ByteOrdering of a little-endian machine
        for r in opts:
            if r.lhs != Symbol('ByteOrdering'):
                raise LangError(f'BinaryReadList: unknown option {getattr(r.lhs, "name", r.lhs)}')
            if r.rhs not in (1, -1) or isinstance(r.rhs, bool):
                raise LangError('BinaryReadList: ByteOrdering must be +1 or -1')
            order = r.rhs
        dt = np.dtype(TYPES[typ])
        if dt.itemsize > 1:
            dt = dt.newbyteorder('>' if order == 1 else '<')
        data = self.fs.read_bytes(pos[0])
        cnt = len(data) // dt.itemsize
        if n is not None:
            cnt = min(cnt, n)
        return np.frombuffer(data[:cnt * dt.itemsize], dtype=dt).tolist()

    def bi_ArrayReshape(self, *a):
        if len(a) not in (2, 3):
            raise LangError('ArrayReshape[list, dims] takes two (or three) arguments')
        lst, dims = a[0], a[1]
        if not isinstance(lst, list):
            raise LangError('ArrayReshape: first argument must be a list')
        if not isinstance(dims, list) or not dims or any(isinstance(d, bool) or not isinstance(d, int) or d < 0 for d in dims):
            raise LangError('ArrayReshape: dimensions must be a list of non-negative integers')
        flat = _flatten(lst)
        total = int(np.prod(dims))
        pad = a[2] if len(a) == 3 else 0
        flat = (flat + [pad] * max(0, total - len(flat)))[:total]      # pads / drops silently, as documented

        def build(vals, ds):
            if len(ds) == 1:
                return vals[:ds[0]]
            step = int(np.prod(ds[1:]))
            return [build(vals[i * step:(i + 1) * step], ds[1:]) for i in range(ds[0])]
        return build(flat, dims)

    def part(self, x, subs):
        if not isinstance(x, list):
            if isinstance(x, Symbol):
                raise LangError(f'Part: the symbol {x.name} has no value')
            raise LangError('Part: the expression is not a list')
        return self._part(x, subs)

    def _part(self, x, subs):
        if not subs:
            return x
        s, rest = subs[0], subs[1:]
        if not isinstance(x, list):
            raise LangError('Part specification is longer than the depth of the object')
        n = len(x)
        if isinstance(s, SpanV):
            lo, hi = s.lo, s.hi
            for v in (lo, hi):
                if isinstance(v, bool) or not isinstance(v, int):
                    if v == Symbol('All'):
                        raise Inconclusive('All in spans is not modelled')
                    raise LangError('Span bounds must be integers')
            if lo < 0:
                lo = n + 1 + lo
            if hi < 0:
                hi = n + 1 + hi
            if hi == lo - 1 and 1 <= lo <= n + 1:
                return []
            if lo < 1 or hi > n or lo > hi:
                raise LangError(f'Part::take: cannot take positions {s.lo} through {s.hi} in a list of length {n}')
            return [self._part(v, rest) for v in x[lo - 1:hi]]
        if s == Symbol('All'):
            return [self._part(v, rest) for v in x]
        if isinstance(s, list):
            raise Inconclusive('list part specifications are not modelled')
        if isinstance(s, bool) or not isinstance(s, int):
            raise LangError('Part specification is neither an integer nor a span')
        if s == 0:
            raise Inconclusive('part 0 (the head) is not modelled')
        if abs(s) > n:
            raise LangError(f'Part::partw: part {s} of a list of length {n} does not exist')
        return self._part(x[s - 1] if s > 0 else x[s], rest)


def _flatten(x):
    out = []
    for v in x:
        if isinstance(v, list):
            out.extend(_flatten(v))
        else:
            out.append(v)
    return out


class MathematicaAdapter(Adapter):
    name = 'mathematica'
    column_major = False
    typed = False

    def run(self, code, cwd):
        it = Interp(cwd)
        it.run(code)
        return it

    def get_var(self, it, var):
        v = it.env.get(var)
        if v is None:
            raise LangError(f'the program does not give the symbol {var} a value')
        return v

    def to_numpy(self, v, var='value'):
        if not isinstance(v, list):
            raise LangError(f'{var} is not a list')

        def shape_of(x):
            if not isinstance(x, list):
                return ()
            if not x:
                return (0,)
            subs = {shape_of(i) for i in x}
            if len(subs) != 1:
                raise LangError(f'{var} is a ragged list')
            return (len(x),) + next(iter(subs))
        sh = shape_of(v)
        flat = _flatten(v)
        arr = np.empty(len(flat), dtype=object)
        arr[:] = flat
        return arr.reshape(sh) if flat else np.zeros(sh)

    def call(self, it, fname, k):
        if fname not in it.defs:
            raise LangError(f'{fname} has no definition')
        return it.call(('call', ('sym', fname), [('num', int(k))]), [it.env])


ADAPTERS = {'mathematica': MathematicaAdapter()}

"""E1 system for C11: read-only access mode is enforced for every mutating operation."""
import os

import numpy as np

from . import snapshot
from .common import import_darr, outcome_of, exc_class, sha
from .engines.opgraph import StepResult, System
from .sys_array import viol

LMAX = 2


class ModeSys(System):
    """cfg: kind ('array'|'ragged'), content ('empty'|'nonempty'|'zerosubs'), meta (bool), route, dtype"""

    def __init__(self, cfg):
        self.cfg = cfg
        self.root = 'g'
        self.darr = import_darr()
        self.dtype = np.dtype(cfg.get('dtype', '<f8'))

    @property
    def path(self):
        return os.path.join(self.root, 'x.darr')

    def build(self):
        darr = self.darr
        os.makedirs(self.root, exist_ok=True)
        c = self.cfg
        meta = {'k': 1, 'j': 2} if c['meta'] else None
        route = c['route']
        mode = 'r'
        if c['kind'] == 'array':
            n = 0 if c['content'] == 'empty' else 1
            if route == 'create':
                h = darr.create_array(self.path, shape=(n,), dtype=self.dtype, fill=3, accessmode='r', metadata=meta)
            elif route == 'asarray':
                h = darr.asarray(self.path, np.full((n,), 3, dtype=self.dtype), accessmode='r', metadata=meta)
            elif route == 'default':
                darr.asarray(self.path, np.full((n,), 3, dtype=self.dtype), accessmode='r+', metadata=meta)
                h = darr.Array(self.path)
            elif route == 'copy':
                src = darr.asarray(os.path.join(self.root, 'src.darr'), np.full((max(n, 1),), 3, dtype=self.dtype),
                                   metadata=meta)
                if n == 0:
                    darr.truncate_array(os.path.join(self.root, 'src.darr'), 0)
                    src = darr.Array(os.path.join(self.root, 'src.darr'))
                h = src.copy(self.path) if n else darr.asarray(self.path, np.zeros((0,), self.dtype), metadata=meta)
                snapshot._rmtree(os.path.join(self.root, 'src.darr'))
        else:
            subs = {'empty': [], 'zerosubs': [np.zeros((0,), self.dtype)] * 2,
                    'nonempty': [np.full((1,), 3, dtype=self.dtype)]}[c['content']]
            n = len(subs)
            if route == 'create':
                h = darr.create_raggedarray(self.path, atom=(), dtype=self.dtype, accessmode='r+', metadata=meta)
                if subs:
                    h.iterappend(subs)
                h = darr.RaggedArray(self.path)      # default mode
            elif route == 'copy':          # RaggedArray.copy with its default access mode (read-only)
                sp = os.path.join(self.root, 'src.darr')
                src = darr.create_raggedarray(sp, atom=(), dtype=self.dtype, accessmode='r+', metadata=meta)
                if subs:
                    src.iterappend(subs)
                h = src.copy(self.path)
                snapshot._rmtree(sp)
            elif route == 'createro':
                if subs:
                    h = darr.asraggedarray(self.path, subs, dtype=self.dtype, accessmode='r', metadata=meta)
                else:
                    h = darr.create_raggedarray(self.path, atom=(), dtype=self.dtype, accessmode='r', metadata=meta)
        self.handles = {'h': h}
        # mmode: mode of the metadata sub-handle (the user may set it separately; assigning the
        # handle's accessmode must bring both back in line)
        self.model = {'n': n, 'meta': sorted(meta or {}), 'mode': mode, 'mmode': mode, 'deleted': False}
        if h.accessmode != 'r':
            return [viol('mode', f'create/{route}', 'start', 'handle not read-only as requested',
                         f'route {route} gave accessmode {h.accessmode!r}')]
        return []

    def copy_model(self):
        return dict(self.model, meta=list(self.model['meta']))

    def set_model(self, m):
        self.model = dict(m, meta=list(m['meta']))

    def model_canon(self):
        return sha(repr(sorted(self.model.items())))

    def abstract(self):
        m = self.model
        return f"{self.cfg['kind']},n={'0' if m['n'] == 0 else '>0'},meta={'yes' if m['meta'] else 'no'},{m['mode']}" + \
               ('' if m['mmode'] == m['mode'] else f",metadata-handle={m['mmode']}")

    # ------------------------------------------------------------------ alphabet
    def enabled(self):
        m = self.model
        if m['deleted']:
            return [], 0
        ops, dis = [], 0
        arr = self.cfg['kind'] == 'array'
        if arr:
            ops += [('assign0',), ('assign_all',), ('assign_ell',)]
        grow = [('append', 'row'), ('iterappend', 'row')]
        for g in grow:
            if m['n'] < LMAX:
                ops.append(g)
            else:
                dis += 1
        ops += [('append', 'zero'), ('iterappend', 'empty'), ('iterappend', 'zero')] if arr or m['n'] < LMAX else \
               [('iterappend', 'empty')]
        if not arr and m['n'] >= LMAX:
            dis += 2
        ops += [('trunc', 0), ('trunc', -1), ('delete',)]
        ops += [('meta', 'update'), ('meta', 'set'), ('meta', 'pop'), ('meta', 'popitem'), ('meta', 'del')]
        ops += [('mode', 'r'), ('mode', 'r+'), ('reopen_default',), ('reopen_rw',), ('metamode', 'r'), ('metamode', 'r+')]
        if arr:
            ops += [('badopen',)]
            if m['n'] > 0:
                ops += [('nested_rw_assign',)]
        ops += [('mode', 'w'), ('metamode', 'w')]       # invalid modes: refused, nothing changes
        ops += [('mode_in_ctx', 'r'), ('mode_in_ctx', 'r+')]
        return ops, dis

    # ------------------------------------------------------------------ step
    def step(self, op):
        darr = self.darr
        h = self.handles['h']
        m = self.model
        arr = self.cfg['kind'] == 'array'
        kind = op[0]
        opdesc = '/'.join(str(x) for x in op)
        pre = self.abstract()
        row = np.full((1,), 5, dtype=self.dtype)
        zero = np.zeros((0,), dtype=self.dtype)
        newm = self.copy_model()
        valid = True          # would the call be valid in mode r+ ?
        effect = None         # predicate on the handle, evaluated after a successful call
        if kind in ('mode', 'metamode') and op[1] == 'w':
            target = h if kind == 'mode' else h.metadata
            what, val = outcome_of(lambda: setattr(target, 'accessmode', 'w'))
            label = what if what == 'returns' else f'raises:{exc_class(val)}'
            if what == 'returns':
                return StepResult(label, [viol('mode', opdesc, pre, 'invalid access mode accepted', f'{opdesc} returned')], diverged=True)
            return StepResult(label)        # the model is unchanged: later operations must still honour the old mode
        if kind == 'nested_rw_assign':
            # inside a default (handle-mode) context, a nested context asks for r+ and is left again; then an assignment
            before = snapshot.snap(self.path)

            def seq():
                with h.open_array():
                    with h.open_array(accessmode='r+'):
                        pass
                    h[0] = row[0]
            what, val = outcome_of(seq)
            label = what if what == 'returns' else f'raises:{exc_class(val)}'
            after = snapshot.snap(self.path)
            V = []
            if m['mode'] == 'r':
                if what == 'returns' or after != before:
                    V.append(viol('mode', opdesc, pre, 'write through a read-only handle after a nested r+ context',
                                  f'{opdesc} in state [{pre}]: {label}; files changed: {snapshot.diff(before, after)[:3]}'))
            elif what == 'raises':
                V.append(viol('mode', opdesc, pre, f'{label} in mode r+', f'{opdesc} in state [{pre}]: {val!r}'))
            return StepResult(label, V, diverged=bool(V))
        if kind == 'badopen':
            # a refused open (invalid access mode) must leave the handle exactly as it was; what it may break is the
            # enforcement of the mode by LATER operations, which the graph explores from the state it leaves behind
            def bad():
                with h.open_array(accessmode='rw'):
                    pass
            what, val = outcome_of(bad)
            label = what if what == 'returns' else f'raises:{exc_class(val)}'
            if what == 'returns':
                return StepResult(label, [viol('mode', opdesc, pre, 'invalid access mode accepted', "open_array(accessmode='rw') returned")],
                                  diverged=True)
            return StepResult(label)
        if kind == 'metamode':
            what, val = outcome_of(lambda: setattr(h.metadata, 'accessmode', op[1]))
            label = what if what == 'returns' else f'raises:{exc_class(val)}'
            if what == 'raises':
                return StepResult(label, [viol('mode', opdesc, pre, label, f'{opdesc}: {val!r}')], diverged=True)
            newm['mmode'] = op[1]
            self.model = newm
            return StepResult(label)
        if kind == 'mode_in_ctx':
            # the mode is assigned while the data are held open by a context; it must take effect like any assignment
            def sw():
                with (h.open_array() if arr else h.open_arrays()):
                    h.accessmode = op[1]
            what, val = outcome_of(sw)
            label = what if what == 'returns' else f'raises:{exc_class(val)}'
            if what == 'raises':
                return StepResult(label, [viol('mode', opdesc, pre, f'{label} when assigning the access mode inside a context',
                                               f'{opdesc} in state [{pre}]: {val!r}')], diverged=True)
            newm['mode'] = newm['mmode'] = op[1]
            self.model = newm
            got = (h.accessmode, h.metadata.accessmode) + ((h._values.accessmode, h._indices.accessmode) if not arr else ())
            if any(g != op[1] for g in got):
                return StepResult(label, [viol('mode', opdesc, pre, 'mode only partly switched', f'{opdesc}: modes now {got}')],
                                  diverged=True)
            return StepResult(label)
        if kind in ('mode', 'reopen_default', 'reopen_rw'):
            if kind == 'mode':
                what, val = outcome_of(lambda: setattr(h, 'accessmode', op[1]))
                newm['mode'] = newm['mmode'] = op[1]
            else:
                md = 'r' if kind == 'reopen_default' else 'r+'
                cls = darr.Array if arr else darr.RaggedArray
                what, val = outcome_of(lambda: cls(self.path) if md == 'r' else cls(self.path, accessmode='r+'))
                if what == 'returns':
                    self.handles['h'] = val
                newm['mode'] = newm['mmode'] = md
            label = what if what == 'returns' else f'raises:{exc_class(val)}'
            if what == 'raises' or self.handles['h'].accessmode != newm['mode']:
                return StepResult(label, [viol('mode', opdesc, pre, f'mode switch failed: {label}',
                                               f'{opdesc}: {label}; accessmode now {self.handles["h"].accessmode!r}')],
                                  diverged=True)
            self.model = newm
            return StepResult(label)
        if kind == 'assign0':
            call = lambda: h.__setitem__(0, 7)
            valid = m['n'] > 0
            effect = lambda hh: hh[0] == 7
        elif kind == 'assign_all':
            call = lambda: h.__setitem__(slice(None), 8)
            effect = lambda hh: bool(np.all(hh[:] == 8))
        elif kind == 'assign_ell':
            call = lambda: h.__setitem__(Ellipsis, 9)
            effect = lambda hh: bool(np.all(hh[:] == 9))
        elif kind == 'append':
            x = row if op[1] == 'row' else zero
            call = lambda: h.append(x)
            newm['n'] = m['n'] + (1 if (op[1] == 'row' or not arr) else 0)
            effect = lambda hh: len(hh) == newm['n']
        elif kind == 'iterappend':
            items = {'row': [row], 'empty': [], 'zero': [zero]}[op[1]]
            call = lambda: h.iterappend(items)
            inc = {'row': 1, 'empty': 0, 'zero': 0 if arr else 1}[op[1]]
            newm['n'] = m['n'] + inc
            effect = lambda hh: len(hh) == newm['n']
        elif kind == 'trunc':
            k = op[1]
            call = (lambda: darr.truncate_array(h, k)) if arr else (lambda: darr.truncate_raggedarray(h, k))
            nl = len(list(range(m['n']))[:k])
            valid = 0 <= nl < m['n']
            newm['n'] = nl
            effect = lambda hh: len(hh) == nl
        elif kind == 'delete':
            call = (lambda: darr.delete_array(h)) if arr else (lambda: darr.delete_raggedarray(h))
            newm['deleted'] = True
            effect = lambda hh: not os.path.lexists(self.path)
        elif kind == 'meta':
            md = h.metadata
            a = op[1]
            if a == 'update':
                call = lambda: md.update({'k': 5})
                newm['meta'] = sorted(set(m['meta']) | {'k'})
                effect = lambda hh: hh.metadata['k'] == 5
            elif a == 'set':
                call = lambda: md.__setitem__('j', 6)
                newm['meta'] = sorted(set(m['meta']) | {'j'})
                effect = lambda hh: hh.metadata['j'] == 6
            elif a == 'pop':
                call = lambda: md.pop('k')
                valid = 'k' in m['meta']
                newm['meta'] = sorted(set(m['meta']) - {'k'})
                effect = lambda hh: 'k' not in hh.metadata
            elif a == 'popitem':
                call = lambda: md.popitem()
                valid = bool(m['meta'])
                effect = lambda hh: len(hh.metadata) == len(m['meta']) - 1
            elif a == 'del':
                call = lambda: md.__delitem__('j')
                valid = 'j' in m['meta']
                newm['meta'] = sorted(set(m['meta']) - {'j'})
                effect = lambda hh: 'j' not in hh.metadata
        else:
            raise KeyError(op)
        before = snapshot.snap(self.root)
        what, val = outcome_of(call)
        label = what if what == 'returns' else f'raises:{exc_class(val)}'
        after = snapshot.snap(self.root)
        if (m['mmode'] if kind == 'meta' else m['mode']) == 'r':
            V = []
            if what == 'returns':
                V.append(viol('mode', opdesc, pre, 'mutating call did not raise in mode r',
                              f'{opdesc} through a read-only handle [{pre}] returned instead of raising'))
            if after != before:
                V.append(viol('mode', opdesc, pre, 'files changed in mode r',
                              f'{opdesc} through a read-only handle [{pre}] changed files: '
                              f'{snapshot.diff(before, after)[:4]}'))
            return StepResult(label, V, diverged=bool(V))
        # mode r+
        if not valid:
            if what == 'returns':
                return StepResult(label, [viol('mode-rw', opdesc, pre, 'invalid call returned', '')], diverged=True)
            return StepResult(label)
        if what == 'raises':
            return StepResult(label, [viol('mode', opdesc, pre, f'fails in mode r+: {exc_class(val)}',
                                           f'{opdesc} [{pre}] raises {val!r} although the handle is in mode r+')],
                              diverged=True)
        if kind == 'meta' and op[1] == 'popitem':
            newm['meta'] = sorted(self.handles['h'].metadata.keys())
        ok = outcome_of(lambda: effect(self.handles['h']))
        if ok[0] == 'raises' or not ok[1]:
            return StepResult(label, [viol('mode', opdesc, pre, 'no effect in mode r+',
                                           f'{opdesc} [{pre}] returned in mode r+ but its effect is not observed')],
                              diverged=True)
        self.model = newm
        return StepResult(label)

    def invariant(self):
        return []
